"""Runner: sub-checks, Hypothesis drivers, exhaustive drivers, evidence, replay files,
known findings.  See DESIGN.md section 2.4 / 2.5.

A *sub-check* is (a) a generator of JSON-able cases (a Hypothesis strategy, a
RuleBasedStateMachine that records its history, or an exhaustive enumerator) and (b) a
pure function ``run(ctx, case)`` holding the oracle.  Hypothesis only ever produces the
case; the oracle never sees Hypothesis, so a replay file re-executes ``run`` directly.
"""
import hashlib
import json
import os
import sys
import time
import traceback
from collections import Counter

from . import env

EXIT_OK, EXIT_VIOLATION, EXIT_HARNESS = 0, 1, 2


class Violation(Exception):
    """The code under test broke the property. ``key`` identifies the root-cause class."""

    def __init__(self, key, what, detail=None):
        super().__init__(f"{key}: {what}")
        self.key = key
        self.what = what
        self.detail = detail


class Abandon(Exception):
    """The rest of this case is not evaluated: it already hit a root cause that was reported
    earlier in this run (avoids cascades of secondary keys). Never a failure."""


def jdump(obj):
    return json.dumps(obj, sort_keys=True, separators=(",", ":"), default=_jdefault)


def _jdefault(o):
    if isinstance(o, (bytes, bytearray)):
        return {"hex": bytes(o).hex()}
    if isinstance(o, (set, frozenset)):
        return sorted(o)
    try:
        import numpy as np

        if isinstance(o, np.integer):
            return int(o)
        if isinstance(o, np.floating):
            return float(o)
        if isinstance(o, np.ndarray):
            return o.tolist()
    except Exception:
        pass
    return repr(o)


def digest(obj):
    return hashlib.sha1(jdump(obj).encode()).hexdigest()


def derive_seed(*parts):
    h = hashlib.sha256("|".join(str(p) for p in parts).encode()).digest()
    return int.from_bytes(h[:8], "big")


def lib_frame(exc):
    """innermost frame of the traceback that lies inside the library under test"""
    where = None
    for fs in traceback.extract_tb(exc.__traceback__):
        if fs.filename.startswith(env.SRC):
            where = f"{os.path.basename(fs.filename)}:{fs.name}"
    return where


class Ctx:
    """Per sub-check, per shard bookkeeping. Picklable summary via .result()."""

    MAX_SAMPLES = 3

    def __init__(self, prop, sub, tier, seed, shard=0, nshards=1, known=(), deadline=None):
        self.prop, self.sub, self.tier, self.seed = prop, sub, tier, seed
        self.shard, self.nshards = shard, nshards
        self.known = set(known)
        self.suppressed = set()
        self.evaluations = 0
        self.nontrivial = set()
        self.samples = []
        self.hist = Counter()
        self.known_hits = Counter()
        self.suppressed_hits = Counter()
        self.violations = []  # dicts
        self.current = None
        self.pending = None
        self.deadline = deadline
        self.skipped_for_time = 0
        self.notes = []
        self.exhaustive = None
        self.best = None

    # -- bookkeeping used by oracles --------------------------------------------------
    def case(self, case, nontrivial, labels=(), sample=None):
        """Record one executed case. ``nontrivial`` by the sub-check's stated rule."""
        self.evaluations += 1
        for lab in labels:
            self.hist[lab] += 1
        if nontrivial:
            d = digest(case)[:16]
            if d not in self.nontrivial:
                self.nontrivial.add(d)
                if len(self.samples) < self.MAX_SAMPLES:
                    self.samples.append(_sample_repr(sample if sample is not None else case))

    def label(self, *labels):
        for lab in labels:
            self.hist[lab] += 1

    def fail(self, key, what, detail=None):
        """Report a violation of the property. Known / already-reported root causes are
        counted and the search continues; anything else aborts the case."""
        full = key if key.startswith(self.prop + "/") else f"{self.prop}/{self.sub}/{key}"
        if full in self.known:
            self.known_hits[full] += 1
            return
        if full in self.suppressed:
            self.suppressed_hits[full] += 1
            self.pending = Abandon(full)
            raise self.pending
        # remembered as well as raised: oracle code that wraps library calls in a broad try/except can never swallow a verdict
        # (safe_run / guard re-raise it when the wrapped call returns normally)
        self.pending = Violation(full, what, detail)
        raise self.pending

    def deliver_pending(self):
        p, self.pending = self.pending, None
        if p is not None:
            raise p

    def must(self, fn, key, what):
        """Call library code that has to succeed for an in-domain case; an exception is a
        violation whose key includes where in the library it was raised."""
        try:
            return True, fn()
        except Violation:
            raise
        except env.HarnessError:
            raise
        except env.LibraryFault as e:
            self.fail(f"{key}/{e.key}", f"{what}: {e}")
            return False, None
        except Exception as e:  # noqa
            where = lib_frame(e)
            if where is None:
                raise  # raised by the harness itself: harness error, not a finding
            self.fail(f"{key}/raises-{type(e).__name__}@{where}", f"{what}: {type(e).__name__}: {e}")
            return False, None

    def out_of_time(self):
        if self.deadline is not None and time.time() > self.deadline:
            self.skipped_for_time += 1
            return True
        return False

    def result(self):
        return {
            "prop": self.prop, "sub": self.sub, "shard": self.shard,
            "evaluations": self.evaluations, "nontrivial": self.nontrivial,
            "samples": self.samples, "hist": dict(self.hist),
            "known_hits": dict(self.known_hits), "suppressed_hits": dict(self.suppressed_hits),
            "violations": self.violations, "skipped_for_time": self.skipped_for_time,
            "notes": self.notes, "exhaustive": self.exhaustive,
        }


def _sample_repr(case):
    s = jdump(case)
    if len(s) <= 3000:
        return json.loads(s)
    return {"truncated_json": s[:3000] + "...", "full_length": len(s)}


class Sub:
    """One sub-check. kind: 'given' | 'machine' | 'enum' | 'custom'."""

    def __init__(self, name, run, kind="given", strategy=None, machine=None, enumerate=None,
                 custom=None, budget=(200, 2000), shards=(1, 16), rule="", steps=(25, 50),
                 nontrivial_required=True, fuzz_target=None, tz=None):
        self.name, self.run, self.kind = name, run, kind
        self.tz = tz   # POSIX TZ string: the sub-check runs with the process in that time zone (default: the wrapper's TZ=UTC)
        self.strategy, self.machine, self.enumerate, self.custom = strategy, machine, enumerate, custom
        self.budget, self.shards, self.rule, self.steps = budget, shards, rule, steps
        self.nontrivial_required = nontrivial_required
        self.fuzz_target = fuzz_target

    def n(self, tier):
        return self.budget[0] if tier == "quick" else self.budget[1]

    def nshards(self, tier):
        return self.shards[0] if tier == "quick" else self.shards[1]

    def nsteps(self, tier):
        return self.steps[0] if tier == "quick" else self.steps[1]


# ---------------------------------------------------------------------------------------
# drivers
# ---------------------------------------------------------------------------------------
MAX_ROUNDS = 1 if os.environ.get("VERIF_FAST_FAIL") else 6  # distinct root causes enumerated per sub-check and shard (VERIF_FAST_FAIL: development aid for
# evaluating seeded defects - first finding only, no shrinking; never set by a registered command)


def _hyp_settings(n, steps=None):
    from hypothesis import HealthCheck, Phase, Verbosity, settings

    kw = dict(verbosity=Verbosity.quiet, max_examples=n, database=None, deadline=None, report_multiple_bugs=False,
              derandomize=False, suppress_health_check=list(HealthCheck),
              phases=(Phase.generate,) if os.environ.get("VERIF_FAST_FAIL") else (Phase.generate, Phase.shrink), print_blob=False)
    if steps is not None:
        kw["stateful_step_count"] = steps
    return settings(**kw)


def _record_violation(ctx, v, case):
    ctx.violations.append({"key": v.key, "what": v.what, "detail": v.detail, "case": case})
    ctx.suppressed.add(v.key)


def safe_run(ctx, sub, case):
    """run the oracle; an exception that escapes from inside the library while the harness
    was performing an operation it expects to succeed is a violation (keyed by where it was
    raised), anything else is a harness error and propagates"""
    env.reset_library_state()
    ctx.pending = None
    try:
        r = sub.run(ctx, case)
        ctx.deliver_pending()
        return r
    except Abandon:
        ctx.pending = None
        return None
    except (Violation, env.HarnessError):
        raise
    except env.LibraryFault as e:
        ctx.fail(f"library-fault/{e.key}", str(e))
    except Exception as e:  # noqa
        where = lib_frame(e)
        if where is None:
            raise
        ctx.fail(f"unexpected-exception/{type(e).__name__}@{where}", f"library raised {type(e).__name__}: {str(e)[:200]}")


def guard(ctx, fn):
    """safe_run for an arbitrary callable (used by history interpreters)"""
    try:
        r = fn()
        ctx.deliver_pending()
        return r
    except (Violation, env.HarnessError, Abandon):
        raise
    except env.LibraryFault as e:
        ctx.fail(f"library-fault/{e.key}", str(e))
    except Exception as e:  # noqa
        where = lib_frame(e)
        if where is None:
            raise
        ctx.fail(f"unexpected-exception/{type(e).__name__}@{where}", f"library raised {type(e).__name__}: {str(e)[:200]}")


def run_history(ctx, case, interp_factory, summarize):
    """the replay path of every history property: interpret init + ops, no Hypothesis involved"""
    ctx.pending = None
    it = interp_factory(ctx, case["init"])
    try:
        for op in case["ops"]:
            guard(ctx, lambda: it.apply(op))
        guard(ctx, it.finish)
    except Abandon:
        ctx.hist["abandoned-after-reported-failure"] += 1
        return
    finally:
        it.close()
    nontrivial, labels = summarize(it, case)
    ctx.case(case, nontrivial, labels=labels)
    ctx.hist["steps"] += len(case["ops"])


def build_machine(ctx, interp_factory, init_strategy, op_strategy, summarize):
    """A RuleBasedStateMachine that only *generates*: every step appends a JSON-able op to the
    history and hands it to the same interpreter run_history uses."""
    import copy

    from hypothesis.stateful import RuleBasedStateMachine, initialize, rule

    class Machine(RuleBasedStateMachine):
        def __init__(self):
            super().__init__()
            self.it = None
            self.failed = False
            self.case = {"init": None, "ops": []}

        def _do(self, fn):
            try:
                guard(ctx, fn)
            except Abandon:
                self.failed = True
                ctx.hist["abandoned-after-reported-failure"] += 1
            except Violation as v:
                self.failed = True
                if ctx.best is not None:
                    ctx.best.offer(v, copy.deepcopy(self.case))
                raise

        @initialize(init=init_strategy)
        def start(self, init):
            self.case["init"] = init
            ctx.current = self.case
            if ctx.out_of_time():
                return
            env.reset_library_state()
            ctx.pending = None
            self._do(lambda: setattr(self, "it", interp_factory(ctx, init)))

        @rule(op=op_strategy)
        def step(self, op):
            if self.it is None or self.failed:
                return
            self.case["ops"].append(op)
            ctx.current = self.case
            self._do(lambda: self.it.apply(op))

        def teardown(self):
            if self.it is None:
                return
            try:
                if not self.failed:
                    ctx.current = self.case
                    self._do(self.it.finish)
                    nontrivial, labels = summarize(self.it, self.case)
                    ctx.case(self.case, nontrivial, labels=labels)
                    ctx.hist["steps"] += len(self.case["ops"])
            finally:
                self.it.close()

    return Machine


class _Best:
    """smallest failing case seen during one Hypothesis run (used if the shrinker itself breaks)"""

    def __init__(self):
        self.v = None
        self.case = None
        self.size = None

    def offer(self, v, case):
        n = len(jdump(case))
        if self.size is None or n <= self.size:
            self.v, self.case, self.size = v, case, n


def _finish_round(ctx, best, exc):
    """exc: the exception that ended the Hypothesis run"""
    if isinstance(exc, Violation):
        _record_violation(ctx, exc, ctx.current)
        return
    if best.v is not None:  # Hypothesis failed internally (e.g. in its shrinker) after a real failure was seen
        ctx.notes.append(f"hypothesis internal error after a failure was found ({type(exc).__name__}: {str(exc)[:80]}); reporting the smallest case seen")
        _record_violation(ctx, best.v, best.case)
        return
    raise exc


def drive_given(ctx, sub):
    from hypothesis import given, seed

    n = max(1, sub.n(ctx.tier) // ctx.nshards)
    for rnd in range(MAX_ROUNDS):
        best = _Best()

        @seed(derive_seed(ctx.seed, ctx.prop, sub.name, ctx.shard, rnd))
        @_hyp_settings(n)
        @given(sub.strategy(ctx.tier))
        def t(case):
            if ctx.out_of_time():
                return
            ctx.current = case
            try:
                safe_run(ctx, sub, case)
            except Violation as v:
                best.offer(v, case)
                raise

        try:
            t()
        except Exception as e:  # noqa
            _finish_round(ctx, best, e)
            continue
        break


def drive_machine(ctx, sub):
    """sub.machine(ctx, tier) -> RuleBasedStateMachine subclass that keeps its history in
    ctx.current (a JSON-able dict) and whose steps call the same interpreter as sub.run.
    The machine class must call ctx.offer_failure(v) ... handled via ctx.best."""
    from hypothesis import seed
    from hypothesis.stateful import run_state_machine_as_test

    n = max(1, sub.n(ctx.tier) // ctx.nshards)
    for rnd in range(MAX_ROUNDS):
        ctx.best = _Best()
        M = seed(derive_seed(ctx.seed, ctx.prop, sub.name, ctx.shard, rnd))(sub.machine(ctx, ctx.tier))
        try:
            run_state_machine_as_test(M, settings=_hyp_settings(n, sub.nsteps(ctx.tier)))
        except Exception as e:  # noqa
            _finish_round(ctx, ctx.best, e)
            continue
        break


def drive_enum(ctx, sub):
    """Exhaustive enumeration of a finite sub-domain (sharded round-robin)."""
    complete = True
    for i, case in enumerate(sub.enumerate(ctx.tier)):
        if i % ctx.nshards != ctx.shard:
            continue
        if ctx.out_of_time():
            complete = False
            continue
        ctx.current = case
        try:
            safe_run(ctx, sub, case)
        except Violation as v:
            _record_violation(ctx, v, case)
    ctx.exhaustive = complete


def drive_fuzz(ctx, sub):
    """coverage-guided campaign on the sub-check named sub.fuzz_target (child process, fresh corpus)"""
    import shutil
    import subprocess
    import tempfile

    runs = max(1, sub.n(ctx.tier) // ctx.nshards)
    out = tempfile.mkdtemp(prefix="fuzz-", dir=env.scratch_root())
    try:
        with open(os.path.join(out, "known.json"), "w") as f:
            json.dump(sorted(ctx.known), f)
        seed_ = derive_seed(ctx.seed, ctx.prop, sub.name, ctx.shard) % (2 ** 31)
        corpus_mode = "seeded" if ctx.shard % 2 == 0 else "empty"
        cmd = [sys.executable, "-X", "faulthandler", "-m", "vf.fuzz", ctx.prop, sub.name, str(runs), str(seed_), out, corpus_mode]
        envv = dict(os.environ, VERIF_REPO=env.REPO, PYTHONPATH=os.pathsep.join([env.VERIF_DIR, os.path.join(env.VERIF_DIR, ".deps")]))
        budget = max(30.0, (ctx.deadline - time.time()) if ctx.deadline else 600.0)
        try:
            p = subprocess.run(cmd, cwd=env.VERIF_DIR, env=envv, capture_output=True, text=True, timeout=budget)
            rc, tail = p.returncode, (p.stdout + p.stderr)[-1500:]
        except subprocess.TimeoutExpired as e:
            rc, tail = None, "time budget reached (campaign cut short; not a failure)"
            ctx.skipped_for_time += 1
        hp = os.path.join(out, "harness-error.txt")
        if os.path.exists(hp):
            raise env.HarnessError("fuzz child: " + open(hp).read()[-3000:])
        sp = os.path.join(out, "stats.json")
        if not os.path.exists(sp):
            if "No module named 'atheris'" in tail or "ModuleNotFoundError" in tail and "atheris" in tail:
                ctx.notes.append("atheris not installed: coverage-guided campaign skipped")
                ctx.skipped_for_time += 1
                return
            raise env.HarnessError(f"fuzz child produced no stats (rc={rc}): {tail}")
        with open(sp) as f:
            r = json.load(f)
        ctx.evaluations += r["evaluations"]
        ctx.nontrivial |= set(r["nontrivial"])
        ctx.samples += r["samples"][:2]
        ctx.hist.update(r["hist"])
        ctx.known_hits.update(r["known_hits"])
        ctx.hist["libfuzzer-execs"] += r.get("execs", 0)
        ctx.hist["libfuzzer-inputs-outside-domain-dropped"] += r.get("dropped", 0)
        ctx.hist[f"corpus={corpus_mode}"] += 1
        ctx.notes += r.get("notes", [])
        for v in r["violations"]:
            ctx.violations.append(v)
        if not r["violations"] and rc not in (0, None):
            raise env.HarnessError(f"fuzz child failed without a recorded violation (rc={rc}): {tail}")
    finally:
        shutil.rmtree(out, ignore_errors=True)


def optimised_child_sub(prop, subnames, flags=("-O",), name="under-python-O", extra_env=None, what="assert statements compiled away"):
    """A sub-check that runs other (cheap, enumerated) sub-checks of the same property once more in a CHILD interpreter started with
    other flags - by default -O: an effect that lives inside an assert statement of the code under test is gone there. One case =
    one whole sub-check in the child; the child's first finding is relayed. Replays re-run the child."""
    import subprocess

    how = " ".join(flags) or " ".join(f"{k}={v}" for k, v in (extra_env or {}).items())

    def run(ctx, case):
        cmd = [sys.executable, *flags, "-X", "faulthandler", "-m", "vf.main", prop, "--tier", "quick", "--only", case["sub"], "--workers", "4"]
        p = subprocess.run(cmd, cwd=env.VERIF_DIR, env=dict(os.environ, VERIF_NESTED="1", VERIF_FAST_FAIL="1", **(extra_env or {})), capture_output=True, text=True, timeout=1200)
        keys = [line.strip() for line in p.stdout.splitlines() if line.startswith("  " + prop + "/")]
        if p.returncode == 1 and keys:
            k, _, msg = keys[0].partition(": ")
            ctx.fail(f"{how}/" + k.split("/", 2)[2], f"in an interpreter started with {how} ({what}): " + msg)
        elif p.returncode != 0:
            raise env.HarnessError(f"child interpreter ended with {p.returncode}: {(p.stdout + p.stderr)[-800:]}")
        summary = next((line for line in p.stdout.splitlines() if line.startswith("[" + prop + "]")), "")
        ctx.case(case, True, labels=["python " + how, summary[:90]])

    return Sub(name, run, kind="enum", enumerate=lambda tier: iter([{"sub": s} for s in subnames]), shards=(min(4, len(subnames)), min(4, len(subnames))),
               rule=f"the sub-checks {', '.join(subnames)} once more in a child interpreter started with {how} ({what}); one case = one whole sub-check in the child",
               nontrivial_required=False)


class zone:
    """run a block of code with the process in another time zone (restored afterwards)"""

    def __init__(self, tz):
        self.tz = tz

    def __enter__(self):
        if self.tz:
            self.old = os.environ.get("TZ")
            os.environ["TZ"] = self.tz
            time.tzset()

    def __exit__(self, *a):
        if self.tz:
            if self.old is None:
                os.environ.pop("TZ", None)
            else:
                os.environ["TZ"] = self.old
            time.tzset()


def run_task(task):
    """Executed in a worker process. task = (prop, subname, tier, seed, shard, nshards, known, deadline)"""
    prop, subname, tier, seed_, shard, nshards, known, deadline = task
    ctx = Ctx(prop, subname, tier, seed_, shard, nshards, known, deadline)
    try:
        from . import registry

        sub = registry.get_sub(prop, subname)
        with zone(sub.tz):
            if sub.kind == "given":
                drive_given(ctx, sub)
            elif sub.kind == "machine":
                drive_machine(ctx, sub)
            elif sub.kind == "enum":
                drive_enum(ctx, sub)
            elif sub.kind == "custom":
                sub.custom(ctx, sub)
            elif sub.kind == "fuzz":
                drive_fuzz(ctx, sub)
            else:
                raise env.HarnessError(f"unknown kind {sub.kind}")
        res = ctx.result()
        res["error"] = None
    except BaseException as e:  # harness error in this task
        res = ctx.result()
        res["error"] = "".join(traceback.format_exception(type(e), e, e.__traceback__))[-6000:]
    return res


# ---------------------------------------------------------------------------------------
# known findings
# ---------------------------------------------------------------------------------------
def load_known():
    path = os.path.join(env.VERIF_DIR, "known_findings.json")
    if not os.path.exists(path):
        return {"known": [], "fixed": []}
    with open(path) as f:
        return json.load(f)


# ---------------------------------------------------------------------------------------
# replay
# ---------------------------------------------------------------------------------------
def replay_file(path, known=()):
    """Re-execute a saved case without Hypothesis. Returns None (held) or a Violation."""
    from . import registry

    with open(path) as f:
        doc = json.load(f)
    sub = registry.get_sub(doc["property"], doc["subcheck"])
    ctx = Ctx(doc["property"], doc["subcheck"], "quick", 0, known=known)
    try:
        with zone(sub.tz):
            safe_run(ctx, sub, doc["case"])
    except Violation as v:
        return v, ctx
    return None, ctx


def write_replay(prop, subname, viol, seed_, tier):
    doc = {"property": prop, "subcheck": subname, "key": viol["key"], "what": viol["what"],
           "detail": viol["detail"], "seed": seed_, "tier": tier, "case": viol["case"]}
    d = os.path.join(env.VERIF_DIR, "replays-out", prop)
    os.makedirs(d, exist_ok=True)
    name = digest([viol["key"], viol["case"]])[:12] + ".json"
    path = os.path.join(d, name)
    with open(path, "w") as f:
        f.write(json.dumps(json.loads(jdump(doc)), indent=1))
    return os.path.relpath(path, env.VERIF_DIR)
