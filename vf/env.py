"""Process environment: which source tree is under test, scratch directories.

Every check process imports the library from $VERIF_REPO/src (default /repo/src),
i.e. from the *current working tree*; basictdf is pure Python, so a fresh
interpreter with bytecode writing disabled is the rebuild.
"""
import atexit
import os
import shutil
import sys
import tempfile

sys.dont_write_bytecode = True
os.environ.setdefault("TZ", "UTC")
try:
    import time

    time.tzset()
except Exception:  # pragma: no cover
    pass

VERIF_DIR = os.path.dirname(os.path.dirname(os.path.abspath(__file__)))
REPO = os.path.abspath(os.environ.get("VERIF_REPO", "/repo"))
SRC = os.path.join(REPO, "src")
CAPTURE = os.path.join(REPO, "tests", "test_files", "2838~aa~Walking 01.tdf")


class LibraryFault(Exception):
    """raised by harness helpers when what the library did can only be its own fault although the exception surfaces in harness code
    (e.g. the gzip stream the library wrote into cannot be read back); reported as a violation, keyed by .key"""

    def __init__(self, key, what):
        super().__init__(what)
        self.key = key


class HarnessError(Exception):
    """Something is wrong with the machinery or its environment (exit 2, never VIOLATION)."""


def import_library():
    """Import basictdf from the tree under test and make sure that is what we got."""
    if not os.path.isdir(SRC):
        raise HarnessError(f"no source tree at {SRC}")
    if sys.path[0] != SRC:
        sys.path.insert(0, SRC)
    for name in [m for m in sys.modules if m == "basictdf" or m.startswith("basictdf.")]:
        del sys.modules[name]
    import warnings

    warnings.filterwarnings("ignore")
    if sys.flags.bytes_warning >= 2:
        warnings.filterwarnings("error", category=BytesWarning)   # an interpreter started with -bb means it
    if os.environ.get("VERIF_WARNINGS") == "error":
        # (child interpreters of the "warnings as errors" sub-checks) what an application's test configuration typically turns into
        # exceptions; numeric RuntimeWarnings stay silent - the harness itself casts and overflows on purpose
        for cat in (UserWarning, DeprecationWarning, FutureWarning, PendingDeprecationWarning):
            warnings.filterwarnings("error", category=cat)
    if os.environ.get("VERIF_LOGGING"):
        # (child interpreters of the "debug logging" sub-checks) what logging.basicConfig(level=DEBUG) in an application does: every logger
        # is enabled for every level; the records go to a handler that keeps nothing
        import logging

        logging.basicConfig(level=getattr(logging, os.environ["VERIF_LOGGING"]), handlers=[logging.NullHandler()], force=True)
    import basictdf  # noqa

    got = os.path.realpath(os.path.dirname(basictdf.__file__))
    want = os.path.realpath(os.path.join(SRC, "basictdf"))
    if got != want:
        raise HarnessError(f"basictdf imported from {got}, expected {want}")
    import basictdf.basictdf  # noqa  (all sub-modules are loaded through it)

    global _pristine
    _pristine = None
    reset_library_state()  # takes the import-time snapshot
    return basictdf


_scratch_root = None


def scratch_root():
    """A private directory for files the checks create; removed at exit.

    /dev/shm when available (no disk wear, fast), else the system temp dir. Nothing a
    registered command *needs* lives here: everything is created at run time.
    """
    global _scratch_root
    if _scratch_root is None or not os.path.isdir(_scratch_root):
        base = "/dev/shm" if os.path.isdir("/dev/shm") and os.access("/dev/shm", os.W_OK) else None
        _scratch_root = tempfile.mkdtemp(prefix="vf-basictdf-", dir=base)
        root = _scratch_root
        pid = os.getpid()

        def _cleanup():
            if os.getpid() == pid:
                shutil.rmtree(root, ignore_errors=True)

        atexit.register(_cleanup)
    return _scratch_root


def fresh_dir():
    return tempfile.mkdtemp(prefix="c-", dir=scratch_root())


def rmdir(path):
    shutil.rmtree(path, ignore_errors=True)


# ---------------------------------------------------------------------------------------
# isolation between cases: module-level mutable state of the library (mutable default
# arguments, class-level containers) is restored to its import-time content before every
# case, so that a failing case is self-contained and its replay file reproduces it.
_pristine = None


def _mutable(x):
    return isinstance(x, (list, dict, set, bytearray))


def _scan():
    import copy
    import inspect

    found = []  # (container object, pristine deep copy)
    seen = set()
    for name, mod in list(sys.modules.items()):
        if not (name == "basictdf" or name.startswith("basictdf.")) or mod is None:
            continue
        for vname, obj in list(vars(mod).items()):
            if not vname.startswith("__") and _mutable(obj) and id(obj) not in seen:
                # a module-level container (a cache, a registry): part of the library's state like class attributes and default arguments
                try:
                    found.append((obj, copy.deepcopy(obj)))
                    seen.add(id(obj))
                except Exception:  # noqa - something that cannot be copied cannot be put back either
                    pass
            objs = [obj]
            if inspect.isclass(obj) and getattr(obj, "__module__", "").startswith("basictdf"):
                for _, attr in list(vars(obj).items()):
                    if _mutable(attr) and id(attr) not in seen:
                        seen.add(id(attr))
                        found.append((attr, copy.deepcopy(attr)))
                    objs.append(attr)
            for o in objs:
                fn = getattr(o, "__func__", o)
                fn = getattr(fn, "fget", fn) if isinstance(fn, property) else fn
                fn = getattr(fn, "__wrapped__", fn)
                if not inspect.isfunction(fn) or not getattr(fn, "__module__", "").startswith("basictdf"):
                    continue
                for d in list(fn.__defaults__ or ()) + list((fn.__kwdefaults__ or {}).values()):
                    if _mutable(d) and id(d) not in seen:
                        seen.add(id(d))
                        found.append((d, copy.deepcopy(d)))
    return found


def ambient_state():
    """What later calls in the same process silently depend on and a library call has no business changing: numpy's floating point error
    handling and print options, the working directory, the recursion limit, the warnings filters, logging levels, the decimal context, gc."""
    import decimal
    import gc
    import locale
    import logging
    import warnings

    import numpy as np

    try:
        cwd = os.getcwd()
    except OSError:
        cwd = None
    return {"numpy.geterr": dict(np.geterr()), "numpy.printoptions": {k: repr(v) for k, v in np.get_printoptions().items()}, "cwd": cwd,
            "recursionlimit": sys.getrecursionlimit(), "warnings.filters": [repr(f) for f in warnings.filters], "logging.root.level": logging.getLogger().level,
            "logging.disable": logging.root.manager.disable, "decimal.prec": decimal.getcontext().prec, "gc.enabled": gc.isenabled(),
            "locale": locale.setlocale(locale.LC_ALL), "TZ": os.environ.get("TZ"), "stdout": id(sys.stdout), "stderr": id(sys.stderr), "excepthook": id(sys.excepthook)}


def restore_ambient(state):
    import numpy as np

    np.seterr(**state["numpy.geterr"])
    if state["cwd"]:
        os.chdir(state["cwd"])
    sys.setrecursionlimit(state["recursionlimit"])


def reset_library_state():
    global _pristine
    if _pristine is None:
        _pristine = _scan()
        return
    for cont, orig in _pristine:
        if cont == orig:
            continue
        import copy

        if isinstance(cont, list):
            cont[:] = copy.deepcopy(orig)
        elif isinstance(cont, (dict, set)):
            cont.clear()
            cont.update(copy.deepcopy(orig))
        elif isinstance(cont, bytearray):
            cont[:] = orig
