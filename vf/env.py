"""Process environment: which source tree is under test, scratch directories.

Every check process imports the library from $VERIF_REPO/src (default /repo/src),
i.e. from the *current working tree*; basictdf is pure Python, so a fresh
interpreter with bytecode writing disabled is the rebuild.
"""
import atexit
import os
import shutil
import sys
import tempfile

sys.dont_write_bytecode = True
os.environ.setdefault("TZ", "UTC")
try:
    import time

    time.tzset()
except Exception:  # pragma: no cover
    pass

VERIF_DIR = os.path.dirname(os.path.dirname(os.path.abspath(__file__)))
REPO = os.path.abspath(os.environ.get("VERIF_REPO", "/repo"))
SRC = os.path.join(REPO, "src")
CAPTURE = os.path.join(REPO, "tests", "test_files", "2838~aa~Walking 01.tdf")


class HarnessError(Exception):
    """Something is wrong with the machinery or its environment (exit 2, never VIOLATION)."""


def import_library():
    """Import basictdf from the tree under test and make sure that is what we got."""
    if not os.path.isdir(SRC):
        raise HarnessError(f"no source tree at {SRC}")
    if sys.path[0] != SRC:
        sys.path.insert(0, SRC)
    for name in [m for m in sys.modules if m == "basictdf" or m.startswith("basictdf.")]:
        del sys.modules[name]
    import warnings

    warnings.filterwarnings("ignore")
    import basictdf  # noqa

    got = os.path.realpath(os.path.dirname(basictdf.__file__))
    want = os.path.realpath(os.path.join(SRC, "basictdf"))
    if got != want:
        raise HarnessError(f"basictdf imported from {got}, expected {want}")
    return basictdf


_scratch_root = None


def scratch_root():
    """A private directory for files the checks create; removed at exit.

    /dev/shm when available (no disk wear, fast), else the system temp dir. Nothing a
    registered command *needs* lives here: everything is created at run time.
    """
    global _scratch_root
    if _scratch_root is None or not os.path.isdir(_scratch_root):
        base = "/dev/shm" if os.path.isdir("/dev/shm") and os.access("/dev/shm", os.W_OK) else None
        _scratch_root = tempfile.mkdtemp(prefix="vf-basictdf-", dir=base)
        root = _scratch_root
        pid = os.getpid()

        def _cleanup():
            if os.getpid() == pid:
                shutil.rmtree(root, ignore_errors=True)

        atexit.register(_cleanup)
    return _scratch_root


def fresh_dir():
    return tempfile.mkdtemp(prefix="c-", dir=scratch_root())


def rmdir(path):
    shutil.rmtree(path, ignore_errors=True)
