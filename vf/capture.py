"""The BTS-recorded reference capture, decoded by reftdf and pinned by golden digests."""
import hashlib
import json
import os

from . import core, env, reftdf

_c = {}


def load():
    """-> dict(data, parsed, blocks=[{slot,type,format,offset,size,spec,spans,segs}]). The reference
    decoder is checked against golden/capture.json; a mismatch is a harness error (exit 2)."""
    if _c:
        return _c
    if not os.path.exists(env.CAPTURE):
        raise env.HarnessError(f"reference capture missing: {env.CAPTURE}")
    data = open(env.CAPTURE, "rb").read()
    gold = json.load(open(os.path.join(env.VERIF_DIR, "golden", "capture.json")))
    if hashlib.sha256(data).hexdigest() != gold["file_sha256"]:
        raise env.HarnessError("the bundled capture is not the file the golden digests were made from")
    parsed = reftdf.parse_container(data)
    blocks = []
    for (i, e), g in zip(reftdf.live(parsed), gold["blocks"]):
        t = reftdf.CODE_TYPE[e["type"]]
        spec, used, spans, segs = reftdf.decode(t, e["format"], data, e["offset"])
        if (i, t, e["offset"], e["size"], used) != (g["slot"], g["type"], g["offset"], g["size"], g["size"]):
            raise env.HarnessError(f"reference decoder disagrees with golden file on slot {i}")
        if hashlib.sha256(core.jdump(spec).encode()).hexdigest() != g["canonical_sha256"]:
            raise env.HarnessError(f"reference decoder output for slot {i} ({t}) differs from its golden digest")
        if reftdf.coverage_gaps(spans, e["offset"], e["offset"] + e["size"]):
            raise env.HarnessError(f"reference decoder left bytes of slot {i} unclassified")
        blocks.append({"slot": i, "type": t, "format": e["format"], "offset": e["offset"], "size": e["size"],
                       "spec": spec, "spans": spans, "segs": segs, "entry": e})
    _c.update(data=data, parsed=parsed, blocks=blocks, gold=gold)
    return _c
