"""C16 - no track of the wrong length enters a block; list assignment is all-or-nothing."""
import numpy as np
from hypothesis import strategies as st

from .. import specs
from ..core import Sub, build_machine, run_history

PROP = {
    "id": "C16",
    "level": "exploration",
    "technique": "Hypothesis RuleBasedStateMachine over Data3D / ForceTorque3D / EMG: add-track and assign-track-list calls with right-length, wrong-length and wrong-kind elements at generated positions; model = the expected list of track objects (identity); invariant after every step; enumerated refusal matrix: every kind of invalid element (incl. unprintable / uninitialised objects, another block as the iterable) x position x container",
    "level_text": ("Exploration of call histories: the machine interleaves valid and invalid add_track/addSignal calls with whole-list "
                   "assignments whose iterable (list, tuple, generator, generator that raises, the block's own list, a non-iterable) "
                   "carries invalid elements at the first, a middle, the last or several positions; lazily evaluated views of the block's own list "
                   "(reversed, iter, filtering generator, chain with new elements) and track objects whose public data attributes were reassigned "
                   "to another length before they are offered are part of the alphabet. After every call the block's "
                   "track list is compared by object identity with the model, every contained track must have the block's frame "
                   "count, and the encoded size must equal nBytes."),
    "level_note": "EMG has no public list assignment; only addSignal is exercised there. Frame counts 1..8.",
    "design_ref": "DESIGN.md section 5, C16",
    "rule": "case = {init, ops}; non-trivial = a refused assignment or add on a block that already holds tracks; distinct by sha1 of the history",
    "assumptions": [],
}

KINDS_BAD = ["duck", "block-itself", "another-block", "resized-wrong", "wrong-len", "wrong-len0", "wrong-len1", "wrong-len-double", "wrong-len+256", "wrong-len+65536", "none", "int", "str", "ndarray", "foreign-track", "list",
             "unprintable", "uninitialised-block", "uninitialised-track"]


def resize_track(t, tr, n, seed=0):
    """reassign the public data attributes of an existing track object to arrays of n frames"""
    src = make_track(t, n, "src", seed)
    if t == "force3D":
        tr.application_point, tr.force, tr.torque = src.application_point, src.force, src.torque
    else:
        tr.data = src.data
    return tr


def true_lengths(t, tr):
    """frame counts of the arrays the track really carries (not what the track says about itself)"""
    if t == "force3D":
        return {np.asarray(tr.application_point).shape[0], np.asarray(tr.force).shape[0], np.asarray(tr.torque).shape[0]}
    return {np.asarray(tr.data).shape[0]}


def make_track(t, n, label="t", seed=0):
    base = ((np.arange(n * 9, dtype=np.int64) * 2654435761 + seed * 40503) % 100003).astype("<f4") / 7.0
    if t == "data3D":
        from basictdf.tdfData3D import MarkerTrack
        return MarkerTrack(label, base[:n * 3].reshape(n, 3).copy())
    if t == "force3D":
        from basictdf.tdfForce3D import ForceTorqueTrack
        a = base[:n * 9].reshape(n, 9)
        return ForceTorqueTrack(label, a[:, 0:3].copy(), a[:, 3:6].copy(), a[:, 6:9].copy())
    from basictdf.tdfEMG import EMGTrack
    return EMGTrack(label, base[:n].copy())


class Interp:
    def __init__(self, ctx, init):
        self.ctx, self.t, self.n = ctx, init["t"], init["n"]
        t = self.t
        nf = {"py": self.n, "np32": np.int32(self.n), "np64": np.int64(self.n)}[init.get("ntype", "py")]
        one = np.ones(3, dtype="<f4")
        if t == "data3D":
            from basictdf.tdfData3D import Data3D
            self.b = Data3D(100, nf, one, np.eye(3, dtype="<f4"), one)
        elif t == "force3D":
            from basictdf.tdfForce3D import ForceTorque3D
            self.b = ForceTorque3D(100, nf, one, np.eye(3, dtype="<f4"), one)
        else:
            from basictdf.tdfEMG import EMG
            self.b = EMG(1000, nf)
        self.model = []
        self.stats = {"refused-on-nonempty": 0, "refused": 0, "accepted": 0, "assign-ok": 0, "assign-refused-nonempty": 0}
        self.counter = 0
        for _ in range(init.get("tracks", 0)):
            self.apply({"op": "add", "kind": "right"})

    # -- helpers
    def current(self):
        return list(self.b.tracks) if self.t != "emg" else list(iter(self.b))

    def element(self, kind):
        self.counter += 1
        if kind == "right":
            return make_track(self.t, self.n, f"k{self.counter}", self.counter), True
        if kind == "resized-right":   # built with another length, then given data of the block's length before it is offered
            return resize_track(self.t, make_track(self.t, self.n + 2, f"r{self.counter}", self.counter), self.n, self.counter), True
        if kind == "resized-wrong":   # built with the block's length, then given longer / shorter data before it is offered
            m = self.n + 2 if self.counter % 2 or self.n == 1 else self.n - 1
            return resize_track(self.t, make_track(self.t, self.n, "rw", self.counter), m, self.counter), False
        if kind == "wrong-len":
            return make_track(self.t, self.n + 1 + self.counter % 3, "w", self.counter), False
        if kind == "wrong-len0":
            m = self.n - 1 if self.n > 1 else self.n + 1
            return make_track(self.t, m, "w", self.counter), False
        if kind == "wrong-len1":   # exactly one frame (broadcastable) into a block of another length
            return make_track(self.t, 1 if self.n != 1 else 2, "w1", self.counter), False
        if kind == "wrong-len-double":
            return make_track(self.t, self.n * 2, "w2", self.counter), False
        if kind in ("wrong-len+256", "wrong-len+65536"):   # same length modulo 2**8 / 2**16
            return make_track(self.t, self.n + (256 if kind.endswith("256") else 65536), "wm", self.counter), False
        if kind == "foreign-track":
            other = {"data3D": "emg", "force3D": "data3D", "emg": "force3D"}[self.t]
            return make_track(other, self.n, "f", self.counter), False
        if kind == "duck":
            # an object that merely LOOKS like a track of the right length (the attributes a track has), but is not one
            import types

            real = make_track(self.t, self.n, "duck", self.counter)
            return types.SimpleNamespace(**{k: getattr(real, k) for k in ("label", "data", "application_point", "force", "torque", "nFrames", "nSamples", "nBytes", "_segments")
                                            if hasattr(real, k)}, _write=real._write), False
        if kind == "block-itself":
            return self.b, False
        if kind == "unprintable":
            # an object that cannot even be shown: repr(), str() and format() of it raise (what a message about the refused element would call)
            class Unprintable:
                def __repr__(self):
                    raise RuntimeError("this object cannot be shown")

                __str__ = __repr__

                def __format__(self, spec):
                    raise RuntimeError("this object cannot be shown")

            return Unprintable(), False
        if kind == "uninitialised-block":
            cls = type(self.b)
            return cls.__new__(cls), False      # an instance without any attribute: repr() of it raises AttributeError
        if kind == "uninitialised-track":
            cls = type(make_track(self.t, self.n, "u", self.counter))
            return cls.__new__(cls), False
        if kind == "another-block":
            other = Interp(self.ctx, {"t": self.t, "n": self.n, "tracks": 1})
            return other.b, False
        return {"none": None, "int": 7, "str": "track", "ndarray": np.zeros((self.n, 3), dtype="<f4"), "list": [1, 2, 3]}[kind], False

    def check_invariant(self, where):
        cur = self.current()
        if [id(x) for x in cur] != [id(x) for x in self.model]:
            self.ctx.fail(f"{self.t}/{where}/track-list-differs",
                          f"{self.t}: after {where} the block holds {len(cur)} tracks {[getattr(x, 'label', '?') for x in cur]}, "
                          f"expected {[x.label for x in self.model]} (same objects, same order)")
        for x in cur:
            k = x.nSamples if self.t == "emg" else x.nFrames
            if k != self.n:
                self.ctx.fail(f"{self.t}/{where}/wrong-length-track-inside", f"{self.t}: block of {self.n} frames contains a track of {k} frames")
            if true_lengths(self.t, x) != {self.n}:
                self.ctx.fail(f"{self.t}/{where}/wrong-length-data-inside", f"{self.t}: block of {self.n} frames contains a track whose arrays have {sorted(true_lengths(self.t, x))} frames")
        if len(self.b) != len(self.model):
            self.ctx.fail(f"{self.t}/{where}/len", f"{self.t}: len() is {len(self.b)}, expected {len(self.model)}")
        # label access describes the same list: the first track carrying a label, and nothing that is not in the list
        labels_now = [x.label for x in self.model]
        for lab in dict.fromkeys(labels_now + [f"k{self.counter}", f"w", "w1", "w2", "rw", "f", "duck", f"r{self.counter}", "callers-own"]):
            want = next((x for x in self.model if x.label == lab), None)
            try:
                got = self.b[lab]
            except KeyError:
                got = None
            except Exception as e:  # noqa
                got = e
            try:
                inside = lab in self.b
            except Exception as e:  # noqa
                inside = e
            if got is not want or inside is not (want is not None):
                self.ctx.fail(f"{self.t}/{where}/label-access-differs-from-track-list",
                              f"{self.t}: after {where}: block[{lab!r}] gives {'nothing' if got is None else getattr(got, 'label', repr(got)[:40])!r} and ({lab!r} in block) is {inside!r}; "
                              f"the track list holds {labels_now}")
        w = specs.lib_write(self.b)
        if self.b.nBytes != len(w):
            self.ctx.fail(f"{self.t}/{where}/nBytes", f"{self.t}: nBytes {self.b.nBytes} but encoding has {len(w)} bytes")

    def apply(self, op):
        if op.get("in_handler") and not getattr(self, "_in_handler", False):
            # the call is made while the caller is handling an exception of its own (the fallback written inside an except block):
            # same outcome as anywhere else
            self._in_handler = True
            self.stats["calls-inside-an-except-block"] = self.stats.get("calls-inside-an-except-block", 0) + 1
            try:
                try:
                    raise KeyError("something of the caller's own went wrong")
                except KeyError:
                    return self.apply(dict(op, in_handler=False))
            finally:
                self._in_handler = False
        if op["op"] == "add":
            el, valid = self.element(op["kind"])
            try:
                if self.t == "emg":
                    if op.get("channel") == "explicit":
                        self.b.addSignal(el, channel=1000 + self.counter)
                    else:
                        self.b.addSignal(el)
                else:
                    self.b.add_track(el)
                raised = None
            except Exception as e:  # noqa
                raised = e
            if valid:
                if raised is not None:
                    self.ctx.fail(f"{self.t}/add/refuses-valid", f"{self.t}: adding a track of the right length raised {type(raised).__name__}: {raised}")
                else:
                    self.model.append(el)
                    self.stats["accepted"] += 1
            else:
                if raised is None:
                    self.ctx.fail(f"{self.t}/add/accepts-{op['kind']}", f"{self.t}: adding {op['kind']} to a block of {self.n} frames did not raise")
                    self.model.append(el)
                else:
                    self.stats["refused"] += 1
                    self.stats["refused-on-nonempty"] += bool(self.model)
            self.check_invariant("add")
        elif op["op"] == "lend":
            self.op_lend(op)
        elif op["op"] == "assign":
            if self.t == "emg":
                return
            pairs = [self.element(k) for k in op["elems"]]
            els = [e for e, _ in pairs]
            all_valid = all(v for _, v in pairs)
            cont = op["container"]
            if cont == "tuple":
                arg = tuple(els)
            elif cont == "generator":
                arg = (e for e in els)
            elif cont == "generator-raises":
                def gen():
                    for e in els:
                        yield e
                    raise RuntimeError("source of tracks failed")
                arg, all_valid = gen(), False
            elif cont == "non-iterable":
                arg, all_valid, els = 5, False, []
            elif cont == "self":
                arg, els, all_valid = self.b.tracks, list(self.model), True
            elif cont.startswith("self-"):
                # lazily evaluated views of the block's own current tracks (optionally followed by the generated new elements):
                # legal iterables of track objects, so exactly what they yield must be installed - or everything rolled back
                own = self.b.tracks
                keep = list(self.model)
                if cont == "self-reversed":
                    arg, keep = reversed(own), keep[::-1]
                    els, all_valid = keep, True
                elif cont == "self-iter":
                    arg, els, all_valid = iter(own), keep, True
                elif cont == "self-filter":
                    drop = keep[len(keep) // 2] if keep else None
                    arg = (x for x in own if x is not drop)
                    els, all_valid = [x for x in keep if x is not drop], True
                else:  # self-chain: own tracks, then the new elements
                    import itertools
                    arg = itertools.chain(own, list(els))
                    els = keep + list(els)
            elif cont in ("other-block-wrong-length", "other-block-same-length"):
                # ANOTHER BLOCK handed over as the iterable (a block iterates over its tracks): its tracks were checked against ITS frame
                # count, not against this block's
                m = self.n if cont.endswith("same-length") else self.n + 1 + self.counter % 2
                other = Interp(self.ctx, {"t": self.t, "n": m, "tracks": 1 + self.counter % 2})
                arg, els, all_valid = other.b, list(other.model), m == self.n
                self.stats[cont] = self.stats.get(cont, 0) + 1
            elif cont == "object-array":
                arg = np.empty(len(els), dtype=object)
                for i_, e_ in enumerate(els):
                    arg[i_] = e_
            elif cont == "copies-of-current":
                # NEW track objects that carry the same label and (almost) the same data as the ones the block holds: the assignment
                # installs exactly these objects - not "nothing, it looks the same"
                import copy as _copy

                els = []
                for j, old in enumerate(self.model):
                    new = _copy.deepcopy(old)
                    if j % 2 and self.t == "force3D":
                        new.force = new.force * np.float32(1.000004)     # a gain correction of 4 parts per million
                    elif j % 2:
                        new.data = new.data * np.float32(1.000004)
                    els.append(new)
                arg, all_valid = list(els), True
            elif cont == "twice" and all_valid and els:
                els = els + [els[0]]      # the same (valid) track object twice: exactly that list must be installed
                arg = list(els)
            else:
                arg = list(els)
            try:
                self.b.tracks = arg
                raised = None
            except Exception as e:  # noqa
                raised = e
            if all_valid:
                if raised is not None:
                    self.ctx.fail(f"{self.t}/assign/refuses-valid", f"{self.t}: assigning {len(els)} valid tracks ({cont}) raised {type(raised).__name__}: {raised}")
                else:
                    self.model = list(els)
                    self.stats["assign-ok"] += 1
                    if isinstance(arg, list) and cont != "self":
                        # the caller goes on using ITS list (appends a track of another length, then empties it): that is not a call on the block
                        self.counter += 1
                        arg.append(make_track(self.t, self.n + 1, "callers-own", self.counter))
                        self.check_invariant("callers-list-appended")
                        del arg[:]
                        self.stats["callers-list-mutated"] = self.stats.get("callers-list-mutated", 0) + 1
            else:
                if raised is None:
                    self.ctx.fail(f"{self.t}/assign/accepts-invalid", f"{self.t}: assigning {op['elems']} ({cont}) did not raise")
                    self.model = list(self.current())
                else:
                    self.stats["refused"] += 1
                    self.stats["assign-refused-nonempty"] += bool(self.model)
                    self.stats["refused-on-nonempty"] += bool(self.model)
            self.check_invariant("assign")

    def op_lend(self, op):
        """another block (of another frame count) is assigned this block's track list while that is empty / takes it over; then a valid
        add on THIS block: the other block must not receive the track (it has the wrong length for it)"""
        if self.t == "emg":
            return
        m = self.n + 1 + op.get("k", 0) % 3
        one = np.ones(3, dtype="<f4")
        if self.t == "data3D":
            from basictdf.tdfData3D import Data3D
            other = Data3D(100, m, one, np.eye(3, dtype="<f4"), one)
        else:
            from basictdf.tdfForce3D import ForceTorque3D
            other = ForceTorque3D(100, m, one, np.eye(3, dtype="<f4"), one)
        if self.model:
            # this block holds tracks of n frames: the other block (m frames) must refuse them
            try:
                other.tracks = self.b.tracks
                took = True
            except Exception:  # noqa
                took = False
            if took:
                self.ctx.fail(f"{self.t}/lend/accepts-wrong-length", f"{self.t}: a block of {m} frames accepted the {self.n}-frame tracks of another block as its track list")
        else:
            err = None
            try:
                other.tracks = self.b.tracks   # an empty list: valid for any block
            except Exception as e:  # noqa
                err = e
            if err is not None:
                self.ctx.fail(f"{self.t}/lend/refuses-empty", f"{self.t}: assigning another block's empty track list raised {type(err).__name__}")
        self.apply({"op": "add", "kind": "right"})
        bad = [x for x in other.tracks if true_lengths(self.t, x) != {m}]
        if bad:
            self.ctx.fail(f"{self.t}/lend/wrong-length-track-inside-other-block", f"{self.t}: after 'other.tracks = block.tracks' and a valid add on the first block, the other block "
                                                                                  f"({m} frames) holds {len(bad)} track(s) of {self.n} frames")
        self.stats["lent-list"] = self.stats.get("lent-list", 0) + 1

    def finish(self):
        self.check_invariant("end")

    def close(self):
        pass


def summarize(it, case):
    labels = [it.t]
    for k, v in it.stats.items():
        if v:
            labels.append(k)
    return it.stats["refused-on-nonempty"] > 0, labels


def inits(t):
    return st.fixed_dictionaries({"t": st.just(t), "n": st.one_of(st.integers(1, 8), st.integers(1, 8), st.sampled_from([255, 256, 257, 1000])),
                                  "tracks": st.integers(0, 3), "ntype": st.sampled_from(["py", "py", "np32", "np64"])})


def ops(t):
    kind = st.sampled_from(["right", "right", "right", "resized-right"] + KINDS_BAD)
    add = st.fixed_dictionaries({"op": st.just("add"), "kind": kind, "channel": st.sampled_from(["auto", "explicit"]), "in_handler": st.sampled_from([False, False, False, True])})
    if t == "emg":
        return add
    elems = st.lists(st.sampled_from(["right"] * 6 + ["resized-right"] + KINDS_BAD), max_size=6)
    assign = st.fixed_dictionaries({"op": st.just("assign"), "elems": elems, "in_handler": st.sampled_from([False, False, True]),
                                    "container": st.sampled_from(["list", "list", "tuple", "generator", "generator-raises", "non-iterable", "self", "object-array", "twice",
                                                                 "self-reversed", "self-iter", "self-filter", "self-chain", "copies-of-current", "copies-of-current",
                                                                 "other-block-wrong-length", "other-block-same-length"])})
    lend = st.fixed_dictionaries({"op": st.just("lend"), "k": st.integers(0, 5)})
    return st.one_of(add, add, assign, assign, assign, lend)


def make(t):
    def machine(ctx, tier):
        return build_machine(ctx, Interp, inits(t), ops(t), summarize)

    def run(ctx, case):
        run_history(ctx, case, Interp, summarize)

    return Sub(t, run, kind="machine", machine=machine, budget=(120, 3000), shards=(1, 8), steps=(20, 40),
               rule=f"{t}: histories of add / assign with invalid elements at generated positions")


def enum_length_grid(tier):
    """block lengths up to a million frames x wrong lengths that are close in ABSOLUTE or RELATIVE terms (one frame off, one part in 10^5 / 10^3 off)"""
    for t in ("data3D", "force3D", "emg"):
        for n in (1, 2, 255, 256, 1000, 65535, 65536, 100000, 100001, 250000) + ((1000000,) if t == "emg" else ()):
            yield {"t": t, "n": n}


def run_length_grid(ctx, case):
    t, n = case["t"], case["n"]
    it = Interp(ctx, {"t": t, "n": n, "tracks": 1})
    deltas = sorted({-1, 1, -2, 2, max(1, n // 100000), -max(1, n // 100000), max(1, n // 1000), -max(1, n // 1000), max(1, n // 100)})
    refused = 0
    for d in deltas:
        m = n + d
        if m < 0 or m == n:
            continue
        tr = make_track(t, m, f"w{d}", 3)
        for how in ("add", "assign"):
            if how == "assign" and t == "emg":
                continue
            try:
                if how == "add":
                    (it.b.addSignal if t == "emg" else it.b.add_track)(tr)
                else:
                    it.b.tracks = [make_track(t, n, "ok", 5), tr]
                accepted = True
            except Exception:  # noqa
                accepted = False
                refused += 1
            if accepted:
                ctx.fail(f"{t}/length-grid/accepts-wrong-length", f"{t}: a block of {n} frames accepted a track of {m} frames ({how})")
    it.check_invariant("length-grid")
    ctx.case(case, refused > 0, labels=[t, f"n={n}"])


def enum_refusal_matrix(tier):
    """every kind of invalid element x its position among valid ones x every way of handing the elements over, on an empty block and on
    one that holds two tracks: refused, and nothing of it stays"""
    for t in ("data3D", "force3D", "emg"):
        for tracks in (0, 2):
            for kind in KINDS_BAD:
                if kind.startswith("wrong-len+"):
                    continue
                yield {"init": {"t": t, "n": 4, "tracks": tracks}, "ops": [{"op": "add", "kind": kind, "channel": "explicit" if tracks else "auto"}, {"op": "add", "kind": "right"}]}
                if t == "emg":
                    continue
                for pos, elems in (("only", [kind]), ("first", [kind, "right", "right"]), ("middle", ["right", kind, "right"]), ("last", ["right", "right", kind])):
                    for cont in ("list", "tuple", "generator", "object-array"):
                        yield {"init": {"t": t, "n": 4, "tracks": tracks}, "ops": [{"op": "assign", "elems": elems, "container": cont}, {"op": "add", "kind": "right"}]}
            if t != "emg":
                for cont in ("other-block-wrong-length", "other-block-same-length", "self", "self-reversed", "self-iter", "self-filter", "self-chain", "copies-of-current",
                             "generator-raises", "non-iterable", "twice"):
                    for elems in ([], ["right"], ["right", "right"]):
                        yield {"init": {"t": t, "n": 4, "tracks": tracks}, "ops": [{"op": "assign", "elems": elems, "container": cont}, {"op": "add", "kind": "right"},
                                                                                  {"op": "assign", "elems": elems, "container": cont}]}


def run_matrix(ctx, case):
    run_history(ctx, case, Interp, summarize)


SUBS = [make(t) for t in ("data3D", "force3D", "emg")]
SUBS.append(Sub("refusal-matrix", run_matrix, kind="enum", enumerate=enum_refusal_matrix, shards=(4, 8),
                rule="3 block kinds x (empty / two tracks) x 17 kinds of invalid element (wrong lengths, look-alikes, the block itself, another block, foreign tracks, unprintable "
                     "and uninitialised objects ...) x position (only / first / middle / last) x container (list / tuple / generator / object array), through add and list "
                     "assignment; and every special iterable (another block of the same / another frame count, views of the block's own tracks, a failing generator ...) x "
                     "0..2 new elements; finite, enumerated", nontrivial_required=False))
SUBS.append(Sub("length-grid", run_length_grid, kind="enum", enumerate=enum_length_grid, shards=(8, 16),
                rule="3 block kinds x frame counts 1 .. 250 000 (EMG: 1 000 000) x wrong lengths one / two frames, one part in 10^5, 10^3, 10^2 off, through add and list assignment; "
                     "finite, enumerated"))
from ..core import optimised_child_sub  # noqa: E402
SUBS.append(optimised_child_sub("C16", ["length-grid", "emg", "data3D", "force3D"]))
