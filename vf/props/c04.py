"""C04 - mutating one block never alters any other block or its metadata."""
from .. import container
from ..core import Sub, build_machine, run_history

PROP = {'id': 'C04', 'level': 'exploration', 'technique': "Hypothesis RuleBasedStateMachine over add / remove / replace / setter histories with payloads of differing sizes; frame condition against a reference model: every live block's stored bytes, format, comment and creation/modification dates equal what was recorded when it was last written (opaque blocks: the initial bytes); after every reopen each decodable block is read back and compared with its spec; enumerated scripts (equal sizes, fill levels, 2^k tails, foreign images); histories and scripts repeated with the process in a non-UTC zone with daylight saving time", 'level_text': 'Exploration of histories with a per-block frame condition checked after every step on the raw file (independent parse) and, at every reopen, through get_block. Later blocks always have to move because payload sizes differ; initial files contain blocks of types the library cannot decode, occasionally payloads above 1 MiB, padding between blocks, or are the BTS capture itself.', 'level_note': "Trusted: reftdf (payload bytes recorded from the reference encoder, which C06 shows to be byte-identical to the library's writer). Access dates are not part of the property.", 'design_ref': 'DESIGN.md section 4, C04', 'rule': 'case = {init image, ops}; non-trivial = an operation on a block that is not the last one while >= 2 blocks are live (neighbours move); distinct by sha1 of the history', 'assumptions': []}

GROUPS = {"C04"}
REFUSALS = False


def interp(ctx, init):
    return container.ContainerInterp(ctx, init, GROUPS)


summarize = container.summarize_factory(lambda s: s["neighbours-moved"])


def machine(ctx, tier):
    return build_machine(ctx, interp, container.init_images(allow_capture=True, allow_gaps=True, allow_free_garbage=True), container.history_ops(refusals=REFUSALS), summarize)


def run(ctx, case):
    run_history(ctx, case, interp, summarize)


SUBS = [Sub("histories", run, kind="machine", machine=machine, budget=(160, 4000), shards=(4, 16), steps=(25, 50),
            rule='histories of successful put/remove/reopen operations; per-block frame condition vs. the model after each')]
SUBS.append(Sub("equal-size-scripts", run, kind="enum", enumerate=lambda tier: container.scripted_cases(), shards=(8, 16),
                rule="24 orders of equally sized blocks of different types (8 bytes each) x table lengths {3,4,14} x 8 short scripts (remove first / middle, "
                     "same-size replace, reopen); finite, enumerated"))
SUBS.append(Sub("fill-level-scripts", run, kind="enum", enumerate=lambda tier: container.fill_level_cases(), shards=(8, 16),
                rule="every table length 1..18, 20, 32 x fill levels {full-2, full-1, full} (all live blocks of distinct types: nine writable, seven undecodable) x 3 type orders x "
                     "scripts (add / set an absent type, replace / set / same-size-replace present ones, remove first then add); finite, enumerated", nontrivial_required=False))
SUBS.append(Sub("foreign-image-scripts", run, kind="enum", enumerate=lambda tier: container.foreign_image_cases(), shards=(8, 16),
                rule="well-formed files as other writers leave them (later unused slots carrying 0 / 64 / -1 / 2^31-1 / mixed values instead of the end of the data; blocks padded to "
                     "64 bytes) x table lengths {4,6,14} x 0..2 live blocks x scripts with two or more adds (api, setters, across a reopen, after removes); finite, enumerated",
                nontrivial_required=False))
SUBS.append(Sub("hole-table-removals", run, kind="enum", enumerate=lambda tier: container.hole_table_cases(), shards=(8, 16),
                rule="well-formed files with unused slots IN FRONT OF live blocks (2..4 live blocks, 0..2 slots in front of each, 0/1/5 spare slots behind) x every order of "
                     "removing up to three of them with remove_block: the blocks that stay keep their bytes and entry fields; finite, enumerated", nontrivial_required=False))
SUBS.append(Sub("histories-other-zone", run, kind="machine", machine=machine, budget=(60, 1500), shards=(2, 8), steps=(25, 50), tz=container.OTHER_ZONE,
                rule="the same histories with the process in a zone that is not UTC and has daylight saving time (POSIX TZ CET-1CEST): stored dates are instants, "
                     "also those in the hour that is repeated when summer time ends"))
SUBS.append(Sub("equal-size-scripts-other-zone", run, kind="enum", enumerate=lambda tier: container.scripted_cases(), shards=(8, 16), tz=container.OTHER_ZONE,
                rule="the enumerated scripts again in that zone (the blocks' dates lie in both passes through the repeated hour)", nontrivial_required=False))
TIME_BUDGET = {"quick": 150, "thorough": 1500}
