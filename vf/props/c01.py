"""C01 - encoding a block and decoding it gives back the same block; re-encode = same bytes."""
from hypothesis import strategies as st

from .. import codec, poison, specs
from ..core import Sub

PROP = {
    "id": "C01",
    "level": "exploration",
    "technique": "Hypothesis-generated block specs (9 types) -> build via public API -> encode -> decode under a poisoned allocator -> field-by-field comparison with the spec + re-encode identity; every encode / decode in rotation through a pre-filled stream, a real file and a gzip stream, decodes at non-zero positions; enumerated boundary counts and long runs; labels as str / str-subclass / numpy.str_, optical channels as list / tuple, item objects also added to another block; enumerated counts on 2^k boundaries and long runs",
    "level_text": ("Exploration: every case is a generated valid block of one of the nine writable types (counts incl. 0, gap masks from run "
                   "lengths, boundary labels, full-range integer fields, special float bit patterns, both 3D formats, both calibration "
                   "formats, both event kinds, several input presentations). The oracle compares against the *spec* the block was built "
                   "from, not against the library's own equality. Absence of failures is sampled, never proven."),
    "level_note": "Trusted: vf/specs.py build/extract (public attributes only). Symmetric read+write changes are invisible to a round trip by design (C06 catches those). +-inf samples and partially-NaN frames are outside the stated domain and not generated.",
    "design_ref": "DESIGN.md section 3, C01",
    "rule": ("one Hypothesis test per block type; case = {spec, hints}; non-trivial = block has >= 1 item and, for the four run-length "
             "types, some track has >= 2 segments or is wholly missing; distinct by sha1 of the case"),
    "assumptions": ["numpy.empty is replaced by a poison-filling wrapper during decode (legal: its contents are unspecified)",
                    "float samples are finite; NaN appears only as a wholly missing frame"],
}


def run(ctx, case):
    spec, hints = specs.expand_case(case)
    t = spec["t"]
    want = specs.canon(spec)
    ok, blk = ctx.must(lambda: specs.build(spec, hints), f"{t}/build", f"constructing a valid {t} block")
    if not ok:
        return
    if case.get("after_failed_encode"):
        # an encode that the library (rightly) refuses must not leave anything behind that leaks into the next, valid one
        bad = specs.invalid_variant(spec)
        if bad is not None:
            try:
                specs.lib_write(specs.build(bad, hints))
                ctx.label("prior-encode-unexpectedly-accepted")
            except Exception:  # noqa - the refusal itself is C13's / C07's subject
                ctx.label("after-aborted-encode")
    ok, w = ctx.must(lambda: specs.lib_write(blk), f"{t}/encode", f"encoding a valid {t} block")
    if not ok:
        return
    if t in ("emg", "platCal", "platData", "data3D", "force3D") and 0 < len(codec.items(spec)) <= 8:
        # the block's item objects are ALSO put into another block of the same kind - re-packed in reverse order, channels numbered from 0:
        # one object in two containers. What THIS block encodes to is its own business and stays what it was.
        import copy as _copy

        empty = _copy.deepcopy(spec)
        for key in ("signals", "plats", "tracks"):
            if key in empty:
                empty[key] = []
        if t == "data3D" and empty.get("links"):
            empty["links"] = []
        try:
            other = specs.build(empty, hints)
            mine = [x[1] if isinstance(x, tuple) else x for x in list(blk)]
            for i, it in enumerate(reversed(mine)):
                if t == "emg":
                    other.addSignal(it, channel=i)
                elif t in ("platCal", "platData"):
                    other.add_platform(it, channel=i)
                else:
                    other.add_track(it)
            ctx.label("items-also-in-another-block")
            lent = True
        except Exception:  # noqa - the other block's business
            lent = False
        if lent:
            ok, w_again = ctx.must(lambda: specs.lib_write(blk), f"{t}/encode-after-lending-items", f"encoding a {t} block whose items were also added to another block")
            if ok and w_again != w:
                i = next((k for k in range(min(len(w), len(w_again))) if w[k] != w_again[k]), min(len(w), len(w_again)))
                ctx.fail(f"{t}/encoding-changed-by-another-blocks-add", f"{t}: after the block's item objects were also added to ANOTHER block (other order, channels from 0) this "
                                                                        f"block encodes differently (first difference at byte {i} of {len(w)})")
    with poison.poisoned(case.get("poison", 0x41)):
        ok, res = ctx.must(lambda: specs.lib_decode(t, spec["format"], w), f"{t}/decode", f"decoding what the library wrote for {t}")
    if ok:
        blk2, _used = res
        ok, got = ctx.must(lambda: specs.extract(blk2), f"{t}/read-fields", f"reading the fields of a decoded {t}")
        if ok:
            d = specs.first_diff(got, want)
            if d:
                ctx.fail(f"{t}/field-{specs.diff_class(d[0])}", f"{t}: after encode->decode {d[0]} is {str(d[1])[:80]}, the block was built with {str(d[2])[:80]}")
        ok, w2 = ctx.must(lambda: specs.lib_write(blk2), f"{t}/re-encode", f"re-encoding a decoded {t}")
        if ok and w2 != w:
            i = next((k for k in range(min(len(w), len(w2))) if w[k] != w2[k]), min(len(w), len(w2)))
            ctx.fail(f"{t}/reencode-differs", f"{t}: re-encoding the decoded block gives different bytes (len {len(w2)} vs {len(w)}, first difference at byte {i})")
    if ok and "boundary" not in case and "longrun" not in case:
        # a decoded block is the caller's: decoding ANOTHER block of the same shape afterwards must not reach into it
        other = specs.same_shape_other_data(spec)
        if other is not None:
            from .. import reftdf

            ok3, _ = ctx.must(lambda: specs.lib_decode(t, spec["format"], reftdf.encode(other)), f"{t}/decode-second-block", f"decoding a second {t} block of the same shape")
            if ok3:
                d = specs.first_diff(specs.extract(blk2), want)
                if d:
                    ctx.fail(f"{t}/earlier-decode-changed-by-later-decode", f"{t}: after another block of the same shape was decoded, the block decoded first reads {d[0]} = "
                                                                            f"{str(d[1])[:60]}, it was {str(d[2])[:60]}")
    if ok and t in specs.RLE_TYPES and codec.items(spec) and not case.get("_second_pass") and "boundary" not in case and "longrun" not in case:
        # the same block object, its gap pattern changed in place, must round-trip again to what it holds NOW
        import copy

        spec2 = copy.deepcopy(spec)
        its_lib = list(blk) if t != "platData" else [p for _, p in blk]
        for it_spec, it_lib in zip(codec.items(spec2), its_lib):
            fr = it_spec["frames"]
            it_spec["frames"] = fr[1:] + fr[:1]
            full = specs.frames_to_array(it_spec["frames"], specs.PER_FRAME[t], specs.PLAIN_HINTS)
            try:
                if t in ("data3D", "emg"):
                    it_lib.data[...] = full.reshape(it_lib.data.shape)
                elif t == "force3D":
                    it_lib.application_point[...] = full[:, 0:3]
                    it_lib.force[...] = full[:, 3:6]
                    it_lib.torque[...] = full[:, 6:9]
                else:
                    it_lib.application_point[...] = full[:, 0:2]
                    it_lib.force[...] = full[:, 2:5]
                    it_lib.torque[...] = full[:, 5]
            except (ValueError, TypeError):
                spec2 = None
                break
        if spec2 is not None and spec2 != spec:
            want2 = specs.canon(spec2)
            ok, w3 = ctx.must(lambda: specs.lib_write(blk), f"{t}/encode-after-edit", f"encoding a {t} block after an in-place edit")
            if ok:
                with poison.poisoned(0x3E):
                    ok, res2 = ctx.must(lambda: specs.lib_decode(t, spec["format"], w3), f"{t}/decode-after-edit", f"decoding a {t} block written after an in-place edit")
                if ok:
                    d = specs.first_diff(specs.extract(res2[0]), want2)
                    if d:
                        ctx.fail(f"{t}/after-edit-field-{specs.diff_class(d[0])}", f"{t}: block edited in place and encoded again: {d[0]} decodes to {str(d[1])[:60]}, "
                                                                                    f"the block holds {str(d[2])[:60]}")
    ctx.case(case, codec.nontrivial_roundtrip(spec), labels=codec.class_labels(spec, hints))


def _long_strategy(tier):
    return st.sampled_from(specs.RLE_TYPES).flatmap(lambda t: st.fixed_dictionaries({
        "spec": specs.long_rle_spec(t), "hints": specs.HINTS, "poison": st.sampled_from(poison.POISON_BYTES)}))


def _strategy(t):
    def s(tier):
        return st.fixed_dictionaries({"spec": specs.SPEC[t](tier), "hints": specs.HINTS, "poison": st.sampled_from(poison.POISON_BYTES),
                                      "after_failed_encode": st.sampled_from([False, False, True])})

    return s


SUBS = [Sub(t, run, strategy=_strategy(t), budget=(250, 6000), shards=(1, 8 if t in ("data2D", "force3D", "calib") else 4),
            rule=f"generated valid {t} blocks; round trip vs. spec; non-trivial per the property rule") for t in specs.TYPES]


def _adapter(spec, raw, tail):
    return {"spec": spec, "hints": specs.PLAIN_HINTS, "poison": poison.POISON_BYTES[(tail[0] if tail else 0) % len(poison.POISON_BYTES)]}


SUBS.append(Sub("long-tracks", run, strategy=_long_strategy, budget=(16, 400), shards=(8, 16),
                rule="blocks of the four run-length types with 1-2 tracks of 257 .. 131079 frames, gaps starting / ending exactly at power-of-two frame "
                     "numbers, thousands of runs, all input dtypes / byte orders / memory layouts"))
SUBS.append(Sub("boundary-counts", run, kind="enum", enumerate=specs.enum_boundary, shards=(8, 16),
                rule="78 fixed blocks whose counts sit on 2^8 / 2^15 / 2^16 (values per event, items per block, runs per track, frames per track, points per 2D cell, links); "
                     "finite, enumerated", nontrivial_required=False))
SUBS.append(Sub("long-runs-all-dtypes", run, kind="enum", enumerate=specs.enum_long_runs, shards=(8, 16),
                rule="each run-length type x one gap-free run of 8189 / 8190 / 16382 / 65537 frames x input dtype <f4 <f8 >f4 >f8 x C / F order; finite, enumerated",
                nontrivial_required=False))
SUBS += [Sub(f"fuzz:{t}", run, kind="fuzz", fuzz_target=("spec", t, _adapter), budget=(0, 60000), shards=(1, 2),
             rule=f"Atheris/libFuzzer, library instrumented: bytes -> {t} spec via the reference decoder (domain filter) -> same round-trip oracle; "
                  "shard 0 starts from a corpus of reference-encoded generated blocks, shard 1 from an empty corpus") for t in specs.TYPES]
from ..core import optimised_child_sub  # noqa: E402
SUBS.append(optimised_child_sub("C01", ["boundary-counts", "platCal", "events"]))
TIME_BUDGET = {"quick": 120, "thorough": 1200}
