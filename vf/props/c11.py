"""C11 - at most one block per type; presence, count and lookup agree with content."""
from .. import container
from ..core import Sub, build_machine, run_history

PROP = {'id': 'C11', 'level': 'exploration', 'technique': 'Hypothesis RuleBasedStateMachine over histories that include repeated adds of a present type, adds into a full table, remove/replace of absent types and setter assignment in every state; outcome oracle (success / ValueError) from the model, plus accessor agreement (has_*, len, get_block by type and index, [] , blocks, convenience getters) against an independent parse at every intermediate state; enumerated scripts (every table length x fill level, one-ulp replacements); the block looked up after a replace / set is the assigned one bit for bit', 'level_text': 'Exploration of histories with an outcome model for every call and an accessor sweep after every step: at most one entry per type in the parsed file, each presence predicate equals membership, len equals the number of live entries, lookups of present types return a block of the right class whose re-encoding equals the stored bytes, lookups of absent types raise, index bounds raise IndexError, blocks lists the table slot by slot.', 'level_note': "Trusted: reftdf.parse_container and the outcome model in vf/container.py. Any deviation of an operation's outcome from the model is reported here (and only here); the other container checks abandon such histories.", 'design_ref': 'DESIGN.md section 4, C11', 'rule': 'case = {init image, ops}; non-trivial = the history contains a repeated add of a present type, or uses a setter both when the type is present and when it is absent; distinct by sha1 of the history', 'assumptions': []}

GROUPS = {"C11"}
REFUSALS = True


def interp(ctx, init):
    return container.ContainerInterp(ctx, init, GROUPS)


summarize = container.summarize_factory(lambda s: s["duplicate-add-attempts"] or (s["setter-add"] and s["setter-replace"]))


def machine(ctx, tier):
    return build_machine(ctx, interp, container.init_images(), container.history_ops(refusals=REFUSALS), summarize)


def run(ctx, case):
    run_history(ctx, case, interp, summarize)


SUBS = [Sub("histories", run, kind="machine", machine=machine, budget=(100, 2500), shards=(4, 16), steps=(25, 50),
            rule='histories incl. predicted refusals; outcome model + accessor sweep after each operation')]
SUBS.append(Sub("equal-size-scripts", run, kind="enum", enumerate=lambda tier: container.scripted_cases(), shards=(8, 16),
                rule="24 orders of equally sized blocks of different types (8 bytes each) x table lengths {3,4,14} x 8 short scripts (remove first / middle, "
                     "same-size replace, reopen); finite, enumerated", nontrivial_required=False))
SUBS.append(Sub("fill-level-scripts", run, kind="enum", enumerate=lambda tier: container.fill_level_cases(), shards=(8, 16),
                rule="every table length 1..18, 20, 32 x fill levels {full-2, full-1, full} (all live blocks of distinct types: nine writable, seven undecodable) x 3 type orders x "
                     "scripts (add / set an absent type, replace / set / same-size-replace present ones, remove first then add); finite, enumerated", nontrivial_required=False))
from ..core import optimised_child_sub  # noqa: E402
SUBS.append(optimised_child_sub("C11", ["fill-level-scripts"]))
TIME_BUDGET = {"quick": 150, "thorough": 1500}
