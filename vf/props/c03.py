"""C03 - any history of add/remove/replace leaves a structurally sound file."""
from .. import container
from ..core import Sub, build_machine, run_history

PROP = {'id': 'C03', 'level': 'exploration', 'technique': 'Hypothesis RuleBasedStateMachine generating add / remove / replace / setter histories (several write contexts, table lengths 1..16, pre-populated images incl. opaque block types); after every successful operation the raw file is parsed by an independent reader and checked for well-formedness; enumerated scripts (equal sizes, fill levels, 2^k tails, foreign images, two long-lived objects, contexts left by the caller\'s exception)', 'level_text': "Exploration of operation histories: the machine starts from Tdf.new or from a compact image written by the reference codec (N in 1..16, 0..N live blocks of the nine writable and seven undecodable types, garbage in don't-care bytes), issues operations the model predicts to succeed and parses the file with reftdf.parse_container after each one: signature/version/N unchanged, every live range after the table and inside the file, no two live ranges overlapping, unused slots of size 0.", 'level_note': 'Trusted: reftdf.parse_container and well_formed_problems. Initial images: Tdf.new, compact images, images with padding between blocks (well-formed but not compact, as foreign files may be) and the BTS capture itself (2.1 MB, eight blocks); in the histories free slots always trail and point at end of data; files with unused slots in front of live blocks (left by another writer) are exercised with removals only (hole-table-removals) - adds on them are refused by the library (C07 covers that refusal). Out-of-order blocks are outside the documented algorithm and not generated. If an operation the model expects to succeed raises, the history is abandoned here and reported by C11.', 'design_ref': 'DESIGN.md section 4, C03', 'rule': 'case = {init image, ops}; non-trivial = the history removes a non-last live block and later adds one, or fills the table completely; distinct by sha1 of the history', 'assumptions': ['live blocks of the initial image are in table order with trailing free slots pointing at end of data']}

GROUPS = {"C03"}
REFUSALS = False


def interp(ctx, init):
    return container.ContainerInterp(ctx, init, GROUPS)


summarize = container.summarize_factory(lambda s: s["remove-nonlast-then-add"] or s["table-filled"])


def machine(ctx, tier):
    return build_machine(ctx, interp, container.init_images(allow_capture=True, allow_gaps=True, allow_free_garbage=True), container.history_ops(refusals=REFUSALS), summarize)


def run(ctx, case):
    run_history(ctx, case, interp, summarize)


SUBS = [Sub("histories", run, kind="machine", machine=machine, budget=(160, 4000), shards=(4, 16), steps=(25, 50),
            rule='histories of successful put/remove/reopen operations; well-formedness of the parsed file after each')]
SUBS.append(Sub("equal-size-scripts", run, kind="enum", enumerate=lambda tier: container.scripted_cases(duplicate_types=True), shards=(8, 16),
                rule="24 orders of equally sized blocks of different types (8 bytes each) x table lengths {3,4,14} x 8 short scripts (remove first / middle, "
                     "same-size replace, reopen); finite, enumerated"))
SUBS.append(Sub("fill-level-scripts", run, kind="enum", enumerate=lambda tier: container.fill_level_cases(), shards=(8, 16),
                rule="every table length 1..18, 20, 32 x fill levels {full-2, full-1, full} (all live blocks of distinct types: nine writable, seven undecodable) x 3 type orders x "
                     "scripts (add / set an absent type, replace / set / same-size-replace present ones, remove first then add); finite, enumerated", nontrivial_required=False))
SUBS.append(Sub("foreign-image-scripts", run, kind="enum", enumerate=lambda tier: container.foreign_image_cases(), shards=(8, 16),
                rule="well-formed files as other writers leave them (later unused slots carrying 0 / 64 / -1 / 2^31-1 / mixed values instead of the end of the data; blocks padded to "
                     "64 bytes) x table lengths {4,6,14} x 0..2 live blocks x scripts with two or more adds (api, setters, across a reopen, after removes); finite, enumerated",
                nontrivial_required=False))
SUBS.append(Sub("hole-table-removals", run, kind="enum", enumerate=lambda tier: container.hole_table_cases(), shards=(8, 16),
                rule="well-formed files with unused slots IN FRONT OF live blocks (2..4 live blocks, 0..2 slots in front of each, 0/1/5 spare slots behind) x every order of "
                     "removing up to three of them with remove_block (by type / by instance, a reopen in between or not); finite, enumerated", nontrivial_required=False))
from ..core import optimised_child_sub  # noqa: E402
SUBS.append(optimised_child_sub("C03", ["fill-level-scripts"]))
TIME_BUDGET = {"quick": 150, "thorough": 1500}
SUBS.append(optimised_child_sub("C03", ["fill-level-scripts"], flags=(), name="scripts-with-debug-logging", extra_env={"VERIF_LOGGING": "DEBUG"},
                                what="logging.basicConfig(level=DEBUG): every logger is enabled for every level"))
