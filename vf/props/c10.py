"""C10 - the open object, the file on disk and a reopened file always agree."""
from .. import container
from ..core import Sub, build_machine, run_history

PROP = {'id': 'C10', 'level': 'exploration', 'technique': 'Hypothesis RuleBasedStateMachine over histories with several mutations per write context and several contexts; after every mutation, still inside the context: Tdf.entries == independent parse of the file bytes at that instant == entries seen by a second read-only Tdf object; nBytes == stat == bytes read; every decodable block read through the open object re-encodes to the bytes on disk; enumerated scripts; histories and scripts repeated with the process in a non-UTC zone with daylight saving time', 'level_text': 'Exploration with two independent observers at every step of a history (not only at the end): a plain open()+reftdf parse while the library still holds the file open, and a second Tdf object. Catches missing flushes and memory-only or disk-only updates.', 'level_note': 'Trusted: reftdf.parse_container; Linux semantics for reading a file that another handle holds open for writing.', 'design_ref': 'DESIGN.md section 4, C10', 'rule': 'case = {init image, ops}; non-trivial = at least two mutations inside one write context; distinct by sha1 of the history', 'assumptions': []}

GROUPS = {"C10"}
REFUSALS = False


def interp(ctx, init):
    return container.ContainerInterp(ctx, init, GROUPS)


summarize = container.summarize_factory(lambda s: s["max-mutations-in-one-context"] >= 2)


def machine(ctx, tier):
    return build_machine(ctx, interp, container.init_images(), container.history_ops(refusals=REFUSALS), summarize)


def run(ctx, case):
    run_history(ctx, case, interp, summarize)


SUBS = [Sub("histories", run, kind="machine", machine=machine, budget=(120, 3000), shards=(4, 16), steps=(25, 50),
            rule='histories of successful put/remove/reopen operations; three-way agreement memory / disk / second reader after each')]
SUBS.append(Sub("equal-size-scripts", run, kind="enum", enumerate=lambda tier: container.scripted_cases(), shards=(8, 16),
                rule="24 orders of equally sized blocks of different types (8 bytes each) x table lengths {3,4,14} x 8 short scripts (remove first / middle, "
                     "same-size replace, reopen); finite, enumerated"))
SUBS.append(Sub("fill-level-scripts", run, kind="enum", enumerate=lambda tier: container.fill_level_cases(), shards=(8, 16),
                rule="every table length 1..18, 20, 32 x fill levels {full-2, full-1, full} (all live blocks of distinct types: nine writable, seven undecodable) x 3 type orders x "
                     "scripts (add / set an absent type, replace / set / same-size-replace present ones, remove first then add); finite, enumerated", nontrivial_required=False))
SUBS.append(Sub("histories-other-zone", run, kind="machine", machine=machine, budget=(60, 1500), shards=(2, 8), steps=(25, 50), tz=container.OTHER_ZONE,
                rule="the same histories with the process in a zone that is not UTC and has daylight saving time (POSIX TZ CET-1CEST): stored dates are instants, "
                     "also those in the hour that is repeated when summer time ends"))
SUBS.append(Sub("equal-size-scripts-other-zone", run, kind="enum", enumerate=lambda tier: container.scripted_cases(), shards=(8, 16), tz=container.OTHER_ZONE,
                rule="the enumerated scripts again in that zone (the blocks' dates lie in both passes through the repeated hour)", nontrivial_required=False))
SUBS.append(Sub("scripts-with-a-stepping-clock", run, kind="enum", enumerate=lambda tier: container.stepping_clock_cases(), shards=(8, 16),
                rule="every third enumerated script with datetime.now() - as the library sees it - one second later at every call: a time stamp obtained twice (once for the "
                     "table in memory, once for the bytes on disk) is not the same time stamp", nontrivial_required=False))
TIME_BUDGET = {"quick": 150, "thorough": 1500}
