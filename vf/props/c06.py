"""C06 - bytes on disk follow the fixed TDF layout (interoperable with BTS files)."""
import io
import os
import time
from datetime import datetime, timedelta

from hypothesis import strategies as st

from .. import capture, codec, cp1252, env, poison, reftdf, specs
from ..core import Sub

PROP = {
    "id": "C06",
    "level": "exploration",
    "technique": "differential testing against an independent struct-only reference codec (reftdf): library encode == reference encode byte for byte; library decode of reference-encoded bytes (canonical and non-canonical run tables, every don't-care filler) == reference decode; header/entries both directions incl. the reference's own type-code names; BTS capture vs golden digests; enumerated: counts on 2^k boundaries; table entries as the container writes them for block dates said in six time zones",
    "level_text": ("Exploration by differential testing: an independent layout-driven encoder/decoder (no numpy, no basictdf import), "
                   "validated against the BTS-recorded capture and pinned by golden digests, is the oracle for generated blocks of all "
                   "nine types, generated header/entry field values and the capture itself. Detects changes made consistently on the "
                   "read and the write side, which no round trip can."),
    "level_note": "Trusted: reftdf's transcription of the layout. For Events, the BTS calibration format and the no-links 3D format (absent from the capture) the reference pins the layout as of the pinned commit. Integer fields whose reader and writer disagree on signedness are generated only in the intersection.",
    "design_ref": "DESIGN.md section 3, C06",
    "rule": ("encode/decode: case = {spec, hints[, don't-care filler]}; non-trivial = block with >= 1 item; header-entries: generated "
             "entry/header field values and short add/remove histories, non-trivial = non-default comment and non-zero offset; "
             "capture: the 8 BTS blocks; distinct by sha1 of the case"),
    "assumptions": ["TZ=UTC so that 32-bit second timestamps map to naive datetimes deterministically"],
}


def selfcheck():
    capture.load()


def run_encode(ctx, case):
    spec, hints = specs.expand_case(case)
    t = spec["t"]
    ref = reftdf.encode(spec)
    ok, blk = ctx.must(lambda: specs.build(spec, hints), f"{t}/build", f"constructing a valid {t} block")
    if ok:
        ok, w = ctx.must(lambda: specs.lib_write(blk), f"{t}/encode", f"encoding a valid {t} block")
        if ok and w != ref:
            _bytes_differ(ctx, t, w, ref, spec)
        if ok and t in specs.RLE_TYPES and codec.items(spec) and "boundary" not in case:
            # the same object, after its size was asked for and it was written once, gets another gap pattern IN PLACE (through the arrays
            # it exposes): what it writes then is the layout encoding of what it holds then
            import copy

            spec2 = copy.deepcopy(spec)
            its_lib = list(blk) if t != "platData" else [p for _, p in blk]
            try:
                _ = blk.nBytes
                for it_spec, it_lib in zip(codec.items(spec2), its_lib):
                    fr = it_spec["frames"]
                    it_spec["frames"] = fr[1:] + fr[:1]
                    full = specs.frames_to_array(it_spec["frames"], specs.PER_FRAME[t], specs.PLAIN_HINTS)
                    if t in ("data3D", "emg"):
                        it_lib.data[...] = full.reshape(it_lib.data.shape)
                    elif t == "force3D":
                        it_lib.application_point[...], it_lib.force[...], it_lib.torque[...] = full[:, 0:3], full[:, 3:6], full[:, 6:9]
                    else:
                        it_lib.application_point[...], it_lib.force[...], it_lib.torque[...] = full[:, 0:2], full[:, 2:5], full[:, 5]
            except (ValueError, TypeError):
                spec2 = None   # arrays that cannot be written in place (read-only / broadcast views): nothing to check
            if spec2 is not None and spec2 != spec:
                ok2, w2 = ctx.must(lambda: specs.lib_write(blk), f"{t}/encode-after-edit", f"encoding a {t} block after an in-place edit of its samples")
                ref2 = reftdf.encode(spec2)
                if ok2 and w2 != ref2:
                    i = next((k for k in range(min(len(w2), len(ref2))) if w2[k] != ref2[k]), min(len(w2), len(ref2)))
                    ctx.fail(f"{t}/encode-after-edit-differs", f"{t}: written once, its gap pattern then changed in place: the second encoding has {len(w2)} bytes, the layout "
                                                               f"of what the block holds now has {len(ref2)}; first difference at byte {i}")
    ctx.case(case, specs.n_items(spec) >= 1, labels=codec.class_labels(spec, hints))


def _bytes_differ(ctx, t, w, ref, spec):
    _, spans = reftdf.encode(spec, with_spans=True)
    i = next((k for k in range(min(len(w), len(ref))) if w[k] != ref[k]), min(len(w), len(ref)))
    cls = next((c for a, b, c in spans if a <= i < b), "beyond-end")
    ctx.fail(f"{t}/encode-differs-{cls}", f"{t}: library wrote {len(w)} bytes, layout gives {len(ref)}; first difference at byte {i} "
                                          f"({cls}): {w[i:i + 8].hex()} vs {ref[i:i + 8].hex()}")


def filler(kind, seed):
    """deterministic don't-care byte source for reference-encoded inputs"""
    state = [seed & 0xFFFFFFFF]

    def dc(cls, n):
        if kind == "zero":
            return b"\x00" * n
        if kind == "ff":
            return b"\xff" * n
        out = bytearray()
        for _ in range(n):
            state[0] = specs.mix(state[0], len(out)) & 0xFFFFFFFFFFFFFFFF
            out.append((state[0] >> 24) & 0xFF)
        if kind == "text":  # looks like a longer label after the terminator
            return bytes((x % 94) + 33 for x in out)
        return bytes(out)

    return dc


def run_decode(ctx, case):
    spec, fill = specs.expand_case(case)[0], case.get("fill", ["zero", 0])
    t = spec["t"]
    want = specs.canon(spec)
    data = reftdf.encode(spec, dc=filler(fill[0], fill[1]), seg_variant=case.get("segs"))
    with poison.poisoned(0x41):
        ok, res = ctx.must(lambda: specs.lib_decode(t, spec["format"], data, b"\xAB" * 8), f"{t}/decode-reference-bytes",
                           f"decoding layout-conformant {t} bytes written by the reference encoder (don't-care bytes: {fill[0]})")
    if ok:
        blk, used = res
        if used != len(data):
            ctx.fail(f"{t}/decode-consumed", f"{t}: decode consumed {used} of {len(data)} layout bytes")
        ok, got = ctx.must(lambda: specs.extract(blk), f"{t}/read-fields", f"reading the fields of a decoded {t}")
        if ok:
            d = specs.first_diff(got, want)
            if d:
                ctx.fail(f"{t}/decode-field-{specs.diff_class(d[0])}", f"{t}: {d[0]} decodes to {str(d[1])[:80]}, the bytes say {str(d[2])[:80]}")
    ctx.case(case, specs.n_items(spec) >= 1, labels=codec.class_labels(spec) + [f"fill={fill[0]}", f"run-table={case.get('segs') or 'canonical'}"])


def _enc_strategy(tier):
    return specs.any_block_case(tier)


def _dec_strategy(tier):
    return st.sampled_from(specs.TYPES).flatmap(lambda t: st.fixed_dictionaries({
        "spec": specs.SPEC[t](tier),
        "fill": st.tuples(st.sampled_from(["zero", "random", "random", "ff", "text"]), st.integers(0, 2 ** 32 - 1)).map(list),
        # run tables other than the one the library itself would write: same present frames, rows reordered / runs cut into touching pieces
        "segs": st.sampled_from([None, None, "reversed", "rotated", "swapped", "split", "split-reversed", "split-rotated"]) if t in specs.RLE_TYPES else st.none()}))


# ---------------------------------------------------------------------------------------
# header and entries
def dt_of(sec):
    """the naive local datetime of an epoch second, in whatever zone the process runs (fold set in a repeated hour), so that
    .timestamp() - which is what the library stores - gives the second back"""
    return datetime.fromtimestamp(sec)


def sec_of(dt):
    return int(dt.timestamp())


from ..container import dates31  # signed 32-bit second timestamps (also before 1970)
comments = st.one_of(st.just(""), st.just("Generated by basicTDF"), specs.labels(256))


def entries_strategy(tier):
    @st.composite
    def entry(draw):
        return {"type": draw(st.integers(0, 16)), "format": draw(specs.u32s), "offset": draw(specs.i32s), "size": draw(specs.i32s),
                "cdate": draw(dates31), "mdate": draw(dates31), "adate": draw(dates31), "comment": draw(comments)}

    @st.composite
    def cases(draw):
        n = draw(st.sampled_from([1, 2, 3, 14, 14]))
        return {"version": draw(specs.u32s), "dates": draw(st.lists(dates31, min_size=3, max_size=3)),
                "entries": [draw(entry()) for _ in range(n)],
                "fill": [draw(st.sampled_from(["zero", "random", "ff", "text"])), draw(st.integers(0, 2 ** 32 - 1))]}

    return cases()


def run_entries(ctx, case):
    """reference-encoded header + table -> read by the library (TdfEntry._build, Tdf.__enter__);
    TdfEntry._write of the same field values -> must equal the reference bytes"""
    from basictdf import Tdf
    from basictdf.basictdf import TdfEntry
    from basictdf.tdfBlock import BlockType

    dc = filler(*case["fill"])
    e = reftdf.Enc(dc)
    reftdf.enc_header(e, {"version": case["version"], "nEntries": len(case["entries"]), "dates": case["dates"]})
    for en in case["entries"]:
        reftdf.enc_entry(e, en)
    image = bytes(e.buf)
    d = env.fresh_dir()
    try:
        path = os.path.join(d, "h.tdf")
        with open(path, "wb") as f:
            f.write(image)
        t = Tdf(path)
        ok, _ = ctx.must(lambda: t.__enter__(), "open/reference-image", "opening a layout-conformant header + table")
        if ok:
            try:
                if int(t.version) != case["version"] or int(t.nEntries) != len(case["entries"]):
                    ctx.fail("open/header-fields", f"header read as version={t.version} nEntries={t.nEntries}, bytes say {case['version']}/{len(case['entries'])}")
                hd = [t.creation_date, t.last_modification_date, t.last_access_date]
                if [sec_of(x) for x in hd] != case["dates"]:
                    ctx.fail("open/header-dates", f"header dates read as {[sec_of(x) for x in hd]}, bytes say {case['dates']}")
                for i, (got, en) in enumerate(zip(t.entries, case["entries"])):
                    g = {"type": got.type.value, "format": int(got.format), "offset": int(got.offset), "size": int(got.size),
                         "cdate": sec_of(got.creation_date), "mdate": sec_of(got.last_modification_date),
                         "adate": sec_of(got.last_access_date), "comment": got.comment}
                    dd = specs.first_diff(g, en)
                    if dd:
                        ctx.fail(f"open/entry-field-{specs.diff_class(dd[0])}", f"entry {i}: {dd[0]} read as {dd[1]!r}, bytes say {dd[2]!r}")
                    if got.type.name != reftdf.TYPE_NAMES[en["type"]]:
                        ctx.fail("open/entry-type-name", f"entry {i}: type code {en['type']} is reported as {got.type.name}, the format calls it {reftdf.TYPE_NAMES[en['type']]}")
            finally:
                t.__exit__(None, None, None)
        # write side: same field values through TdfEntry._write
        for i, en in enumerate(case["entries"]):
            obj = TdfEntry(BlockType[reftdf.TYPE_NAMES[en["type"]]], en["format"], en["offset"], en["size"], dt_of(en["cdate"]), dt_of(en["mdate"]),
                           dt_of(en["adate"]), en["comment"])
            b = io.BytesIO()
            ok, _ = ctx.must(lambda: obj._write(b), "entry/write", "writing a table entry with valid field values")
            if ok:
                want = reftdf.encode_entry(en)
                if b.getvalue() != want:
                    k = next((j for j in range(min(len(want), len(b.getvalue()))) if want[j] != b.getvalue()[j]), -1)
                    ctx.fail("entry/write-differs", f"entry {i}: library wrote {len(b.getvalue())} bytes, first difference from the layout at byte {k}")
                if obj.nBytes != reftdf.ENTRY_SIZE:
                    ctx.fail("entry/nBytes", f"entry nBytes {obj.nBytes} != 288")
    finally:
        env.rmdir(d)
    nt = any(en["comment"] not in ("", "Generated by basicTDF") and en["offset"] != 0 for en in case["entries"])
    ctx.case(case, nt, labels=(f"N={len(case['entries'])}", f"fill={case['fill'][0]}"))


def enum_container_entries(tier):
    """the table entry as the CONTAINER writes it (add_block / replace_block / a setter), for blocks whose dates are given as naive local
    datetimes and as timezone-aware ones in several zones: bytes 16..27 of the entry are the instants, whatever zone they were said in"""
    for zone in ("naive", "utc", "+05:30", "-08:00", "+14:00", "-00:01"):
        for sec in (0, 1, 86399, 1_600_000_000, 1_635_643_800, 2 ** 31 - 90000):
            for via in ("add_block", "replace_block", "setter"):
                for kind in ("events", "emg", "data3D"):
                    if (sec + len(zone) + len(via)) % 2 and kind != "events":
                        continue
                    yield {"zone": zone, "sec": sec, "via": via, "kind": kind}


def run_container_entries(ctx, case):
    import struct
    from datetime import datetime, timedelta, timezone

    from basictdf import Tdf

    from .. import container
    from .c07 import labelled_spec

    zone, sec, via, kind = case["zone"], case["sec"], case["via"], case["kind"]

    def when(s):
        if zone == "naive":
            return dt_of(s)
        if zone == "utc":
            return datetime.fromtimestamp(s, timezone.utc)
        sign = -1 if zone[0] == "-" else 1
        hh, mm = zone[1:].split(":")
        return datetime.fromtimestamp(s, timezone(sign * timedelta(hours=int(hh), minutes=int(mm))))

    d = env.fresh_dir()
    try:
        path = os.path.join(d, "e.tdf")
        Tdf.new(path)
        spec = labelled_spec(kind, 2)
        blk = specs.build(spec)
        blk.creation_date, blk.last_modification_date = when(sec), when(sec + 61)

        def store():
            with Tdf(path).allow_write() as w:
                if via != "add_block":
                    first = specs.build(labelled_spec(kind, 1))
                    w.add_block(first, "first")
                if via == "add_block":
                    w.add_block(blk, "the comment")
                elif via == "replace_block":
                    w.replace_block(blk, "the comment")
                else:
                    setattr(w, container.SETTERS[kind], blk)
        ok, _ = ctx.must(store, f"container-entry/{via}", f"storing a {kind} block whose dates are given in zone {zone}")
        if ok:
            data = open(path, "rb").read()
            parsed = reftdf.parse_container(data)
            lv = reftdf.live(parsed)
            if len(lv) != 1:
                ctx.fail(f"container-entry/{via}/live-count", f"{len(lv)} live entries after {via}")
            else:
                i, e = lv[0]
                raw = data[64 + 288 * i:64 + 288 * (i + 1)]
                payload = specs.lib_write(blk, sink="fresh")
                want = {"type": reftdf.TYPE_CODE[kind], "format": spec["format"], "offset": 64 + 288 * parsed["nEntries"], "size": len(payload), "cdate": sec, "mdate": sec + 61}
                got = dict(zip(("type", "format", "offset", "size", "cdate", "mdate"), struct.unpack("<IIiiii", raw[:24])))
                dd = specs.first_diff(got, want)
                if dd:
                    ctx.fail(f"container-entry/{via}/field-{dd[0].strip('/')}", f"{kind} stored by {via} with dates said in zone {zone}: entry field {dd[0]} is {dd[1]}, the layout "
                                                                               f"(and the instant {sec}) asks for {dd[2]}")
                comment = "the comment" if via != "setter" else "first"
                if raw[32:] != cp1252.field(comment, 256):
                    ctx.fail(f"container-entry/{via}/comment-field", f"{kind} stored by {via}: the 256-byte comment field is not {comment!r} followed by zeros")
                if raw[28:32] != b"\x00" * 4:
                    ctx.fail(f"container-entry/{via}/pad-word", f"{kind} stored by {via}: the entry's pad word is {raw[28:32].hex()}")
    finally:
        env.rmdir(d)
    ctx.case(case, zone != "naive", labels=["container-entry", via, "zone=" + zone])


def files_strategy(tier):
    @st.composite
    def cases(draw):
        types = draw(st.lists(st.sampled_from(specs.TYPES), min_size=1, max_size=4, unique=True))
        blocks = [{"spec": draw(specs.SPEC[t]("quick")), "comment": draw(comments), "cdate": draw(dates31), "mdate": draw(dates31)} for t in types]
        removes = draw(st.lists(st.integers(0, len(types) - 1), max_size=2, unique=True))
        return {"blocks": blocks, "remove": removes}

    return cases()


def run_files(ctx, case):
    """bytes the library itself writes for the header and the table: Tdf.new, add_block, remove_block"""
    from basictdf import Tdf

    d = env.fresh_dir()
    try:
        path = os.path.join(d, "n.tdf")
        t0 = int(time.time())
        ok, tdf = ctx.must(lambda: Tdf.new(path), "new/raises", "creating a new file")
        if not ok:
            return
        t1 = int(time.time()) + 1
        data = open(path, "rb").read()
        _check_table_bytes(ctx, "new", data)
        p = reftdf.parse_container(data)
        if (p["version"], p["nEntries"], len(data)) != (1, 14, 64 + 288 * 14):
            ctx.fail("new/header-values", f"new file: version={p['version']} nEntries={p['nEntries']} length={len(data)}")
        if not all(t0 <= x <= t1 for x in p["dates"]):
            ctx.fail("new/header-dates", f"new file: header dates {p['dates']} not the creation time ({t0}..{t1})")
        added = []
        with tdf.allow_write() as f:
            for bc in case["blocks"]:
                blk = specs.build(bc["spec"])
                blk.creation_date, blk.last_modification_date = dt_of(bc["cdate"]), dt_of(bc["mdate"])
                ok, _ = ctx.must(lambda: f.add_block(blk, bc["comment"]), "add/raises", f"adding a valid {bc['spec']['t']} block")
                if ok:
                    added.append(bc)
                    data = open(path, "rb").read()
                    _check_table_bytes(ctx, "add", data)
                    p = reftdf.parse_container(data)
                    code = reftdf.TYPE_CODE[bc["spec"]["t"]]
                    es = [e for e in p["entries"] if e["type"] == code]
                    if len(es) != 1:
                        ctx.fail("add/entry-missing", f"after add_block there are {len(es)} entries of type {code}")
                        continue
                    e = es[0]
                    ref = reftdf.encode(bc["spec"])
                    want = {"format": bc["spec"]["format"], "size": len(ref), "cdate": bc["cdate"], "mdate": bc["mdate"], "comment": bc["comment"]}
                    got = {k: e[k] for k in want}
                    dd = specs.first_diff(got, want)
                    if dd:
                        ctx.fail(f"add/entry-field-{specs.diff_class(dd[0])}", f"entry written by add_block: {dd[0]} = {dd[1]!r}, expected {dd[2]!r}")
                    if data[e["offset"]:e["offset"] + e["size"]] != ref:
                        ctx.fail("add/payload-not-at-offset", f"{bc['spec']['t']}: bytes at the entry's offset are not the block's layout encoding")
                    if not (t0 <= e["adate"] <= int(time.time()) + 1):
                        ctx.fail("add/access-date", f"access date {e['adate']} is not 'now'")
            for idx in case["remove"]:
                if idx < len(added):
                    code = reftdf.TYPE_CODE[added[idx]["spec"]["t"]]
                    from basictdf.tdfBlock import BlockType

                    ok, _ = ctx.must(lambda: f.remove_block(BlockType(code)), "remove/raises", "removing a present block")
                    if ok:
                        data = open(path, "rb").read()
                        _check_table_bytes(ctx, "remove", data)
    finally:
        env.rmdir(d)
    ctx.case(case, any(b["comment"] not in ("", "Generated by basicTDF") for b in case["blocks"]),
             labels=[f"blocks={len(case['blocks'])}", f"removes={len(case['remove'])}"])


def _check_table_bytes(ctx, op, data):
    """header and every entry must be exactly what the reference encoder produces for the same field values
    (zeroed reserved words, NUL-terminated zero-padded comment)"""
    try:
        p = reftdf.parse_container(data)
    except reftdf.RefError as e:
        ctx.fail(f"{op}/unparseable", f"after {op}: {e}")
        return
    hdr = reftdf.encode_header({"version": p["version"], "nEntries": p["nEntries"], "dates": p["dates"]})
    if data[:64] != hdr:
        k = next(j for j in range(64) if data[j] != hdr[j])
        ctx.fail(f"{op}/header-bytes", f"after {op}: header byte {k} is {data[k]:#x}, canonical layout has {hdr[k]:#x}")
    for i, e in enumerate(p["entries"]):
        if e["comment"] is None:
            ctx.fail(f"{op}/entry-comment-undecodable", f"after {op}: entry {i} comment is not cp1252")
            continue
        want = reftdf.encode_entry(e)
        have = data[64 + 288 * i:64 + 288 * (i + 1)]
        if have != want:
            k = next(j for j in range(288) if have[j] != want[j])
            ctx.fail(f"{op}/entry-bytes", f"after {op}: entry {i} byte {k} is {have[k]:#x}, canonical layout has {want[k]:#x} "
                                          f"({'comment tail/terminator' if k >= 32 else 'pad word' if 28 <= k < 32 else 'field'})")


# ---------------------------------------------------------------------------------------
def enum_capture(tier):
    for i in range(8):
        yield {"slot": i}
    yield {"slot": "container"}


def run_capture(ctx, case):
    from basictdf import Tdf

    cap = capture.load()
    if case["slot"] == "container":
        p = cap["parsed"]
        with Tdf(env.CAPTURE) as t:
            got = [{"type": e.type.value, "format": int(e.format), "offset": int(e.offset), "size": int(e.size),
                    "cdate": sec_of(e.creation_date), "mdate": sec_of(e.last_modification_date), "adate": sec_of(e.last_access_date),
                    "comment": e.comment} for e in t.entries]
            want = [{k: e[k] for k in ("type", "format", "offset", "size", "cdate", "mdate", "adate", "comment")} for e in p["entries"]]
            dd = specs.first_diff(got, want)
            if dd:
                ctx.fail(f"capture/table-{specs.diff_class(dd[0])}", f"capture jump table: {dd[0]} read as {dd[1]!r}, reference says {dd[2]!r}")
            if (int(t.version), int(t.nEntries)) != (p["version"], p["nEntries"]):
                ctx.fail("capture/header", "capture header fields differ")
        ctx.case(case, True, labels=("capture:container",))
        return
    b = cap["blocks"][case["slot"]]
    t = b["type"]
    with poison.poisoned(0x41):
        ok, blk = ctx.must(lambda: Tdf(env.CAPTURE).get_block(b["slot"]), f"capture/{t}/decode", f"decoding capture block {t}")
    if ok:
        if specs.type_of(blk) != t:
            ctx.fail(f"capture/{t}/class", f"slot {b['slot']} decoded as {type(blk).__name__}")
        else:
            got = specs.extract(blk)
            dd = specs.first_diff(got, b["spec"])
            if dd:
                ctx.fail(f"capture/{t}/field-{specs.diff_class(dd[0])}", f"capture {t}: {dd[0]} decodes to {str(dd[1])[:80]}, reference decoder says {str(dd[2])[:80]}")
            ok, w = ctx.must(lambda: specs.lib_write(blk), f"capture/{t}/encode", f"re-encoding capture block {t}")
            if ok:
                ref = reftdf.encode(b["spec"])
                if w != ref:
                    ctx.fail(f"capture/{t}/re-encode", f"capture {t}: re-encoding differs from the canonical layout encoding ({len(w)} vs {len(ref)} bytes)")
    ctx.case(case, True, labels=(f"capture:{t}",))


def run_raw(ctx, case):
    """arbitrary layout-conformant bytes (as found by the fuzzer, don't-care bytes included): library decode ==
    reference decode, consumed == reference length, and building the block from the decoded values and encoding it
    gives the reference encoding"""
    t, fmt, raw = case["t"], case["format"], bytes.fromhex(case["hex"])
    want, used, _, _ = reftdf.decode(t, fmt, raw)
    with poison.poisoned(0x41):
        ok, res = ctx.must(lambda: specs.lib_decode(t, fmt, raw, b"\xAB" * 8), f"{t}/decode-raw-bytes", f"decoding layout-conformant {t} bytes")
    if ok:
        blk, consumed = res
        if consumed != used:
            ctx.fail(f"{t}/decode-consumed", f"{t}: decode consumed {consumed} bytes, the layout says {used}")
        ok, got = ctx.must(lambda: specs.extract(blk), f"{t}/read-fields", f"reading the fields of a decoded {t}")
        if ok:
            d = specs.first_diff(got, want)
            if d:
                ctx.fail(f"{t}/decode-field-{specs.diff_class(d[0])}", f"{t}: {d[0]} decodes to {str(d[1])[:80]}, the bytes say {str(d[2])[:80]}")
        ok, w = ctx.must(lambda: specs.lib_write(blk), f"{t}/re-encode", f"re-encoding a decoded {t}")
        ref = reftdf.encode(want)
        if ok and w != ref:
            _bytes_differ(ctx, t, w, ref, want)
    ctx.case(case, specs.n_items(want) >= 1, labels=codec.class_labels(want))


def _adapter(spec, raw, tail):
    return {"t": spec["t"], "format": spec["format"], "hex": raw.hex()}


SUBS = [
    Sub("encode", run_encode, strategy=_enc_strategy, budget=(1500, 40000), shards=(4, 16),
        rule="generated valid blocks: library bytes == reference encoder bytes, byte for byte"),
    Sub("decode", run_decode, strategy=_dec_strategy, budget=(1500, 40000), shards=(4, 16),
        rule="reference-encoded bytes with zero / random / 0xFF / text-like don't-care bytes: library decode == spec, consumed == length"),
    Sub("entries-through-the-container", run_container_entries, kind="enum", enumerate=enum_container_entries, shards=(4, 8),
        rule="the table entry as add_block / replace_block / a setter write it, for blocks whose creation / modification dates are naive local datetimes or aware ones in UTC, "
             "+05:30, -08:00, +14:00, -00:01 x 6 instants (epoch, the repeated hour of a DST zone, the top of the 31-bit range): every numeric field, the pad word and the "
             "comment field against the layout; finite, enumerated", nontrivial_required=False),
    Sub("entries-through-the-container-other-zone", run_container_entries, kind="enum", enumerate=enum_container_entries, shards=(4, 8), tz="CET-1CEST,M3.5.0,M10.5.0/3",
        rule="the same with the process in a zone that is not UTC and has daylight saving time", nontrivial_required=False),
    Sub("header-entries", run_entries, strategy=entries_strategy, budget=(400, 10000), shards=(2, 16),
        rule="generated header/entry field values: reference bytes read by Tdf/TdfEntry; TdfEntry._write vs reference bytes"),
    Sub("files", run_files, strategy=files_strategy, budget=(120, 3000), shards=(2, 16),
        rule="Tdf.new + add_block/remove_block histories: header and all 288-byte entries vs canonical layout bytes; entry fields vs expectations"),
    Sub("capture", run_capture, kind="enum", enumerate=enum_capture, shards=(3, 9),
        rule="BTS capture: each block decoded by the library vs reftdf (pinned by golden digests), jump table fields (finite, enumerated)"),
]
SUBS.append(Sub("boundary-counts-encode", run_encode, kind="enum", enumerate=specs.enum_boundary, shards=(8, 16),
        rule="78 fixed blocks whose counts sit on 2^8 / 2^15 / 2^16 (values per event, items per block, runs per track, frames per track, points per 2D cell, links); "
             "finite, enumerated", nontrivial_required=False))
SUBS.append(Sub("boundary-counts-decode", run_decode, kind="enum", enumerate=specs.enum_boundary, shards=(8, 16),
        rule="78 fixed blocks whose counts sit on 2^8 / 2^15 / 2^16 (values per event, items per block, runs per track, frames per track, points per 2D cell, links); "
             "finite, enumerated", nontrivial_required=False))
SUBS += [Sub(f"fuzz:{t}", run_raw, kind="fuzz", fuzz_target=("spec", t, _adapter), budget=(0, 60000), shards=(1, 2),
             rule=f"Atheris/libFuzzer, library instrumented: raw bytes that the reference decoder accepts as an in-domain {t} block; "
                  "library decode vs reference decode, canonical re-encode; seeded and empty corpus") for t in specs.TYPES]
from ..core import optimised_child_sub  # noqa: E402
SUBS.append(optimised_child_sub("C06", ["boundary-counts-encode", "boundary-counts-decode", "header-entries"]))
TIME_BUDGET = {"quick": 150, "thorough": 1500}
