"""C19 - constructors refuse arguments whose shape would mis-size the encoding."""
import io
import itertools

import numpy as np

from .. import env
from ..core import Sub

PROP = {
    "id": "C19",
    "level": "exploration",
    "technique": "exhaustive enumeration of the shape lattice (rank 0-3, extents 0-4: 156 shapes) x 6 dtypes + non-array kinds for each of 23 validated constructor arguments; full triple product of a reduced lattice for coupled arrays; oracle: accept exactly the required shape, refuse everything else, and every accepted object must encode to its declared size and decode; coupled arguments also as one and the same object; every kind of event values as the first constructor call of a fresh module state; 4-thread stress",
    "level_text": ("Exploration, exhaustive over a finite lattice: the product (argument x shape x dtype) and the non-array kinds are enumerated "
                   "completely in both tiers. The behavioural core - no accepted object may encode to a size other than the one it "
                   "declares - is checked on every accepted object, independently of which shapes 'should' be accepted."),
    "level_note": "Shapes with extents > 4 or rank > 3 and exotic dtypes (object, str, structured) are not enumerated. Arrays with zero frames for coupled arrays are not asserted either way. The calibration camera map and BTS-format camera parameters are not in the property's list and not asserted.",
    "design_ref": "DESIGN.md section 3, C19",
    "rule": ("case = (argument, shape, dtype) or (argument, non-array kind) or (shape triple) or (event kind, values); non-trivial = the "
             "argument is not of the required shape (must be refused) or is an accepted non-ndarray form; distinct by sha1 of the case"),
    "assumptions": [],
}

DTYPES = ["<f4", "<f8", "<i4", "<i8", "u1", "bool", "<f2", ">f8", "<c8"]   # object / str dtypes are not used on the accept side (DESIGN.md C19)
SHAPES = [()] + [s for r in (1, 2, 3) for s in itertools.product(range(5), repeat=r)]
# same number of elements as a required shape but a different shape, and a few larger extents
SHAPES += [(9,), (1, 9), (9, 1), (6,), (12,), (5,), (8,), (1, 1, 3), (3, 1, 1), (1, 1, 9), (2, 2, 1), (1, 2, 2), (7, 3), (3, 7), (1, 1, 1, 3), (3, 3, 1, 1),
           (3, 6), (6, 3), (3, 9), (9, 3), (2, 9), (18,), (27,), (3, 12), (2, 6), (6, 2), (2, 2, 2, 2)]
SHAPES = list(dict.fromkeys(SHAPES))
KINDS = ["none", "str", "int", "float", "list", "tuple", "nested-list", "list3", "bytes", "dict"]


def kind_value(kind, shape):
    size = int(np.prod(shape)) if shape else 1
    return {"none": None, "str": "ab", "int": 5, "float": 1.5, "list": list(range(size)), "tuple": tuple(range(size)),
            "nested-list": np.arange(size).reshape(shape).tolist(), "list3": [1, 2, 3], "bytes": b"ab", "dict": {"a": 1}}[kind]


def good(shape, dt="<f8"):
    return np.arange(int(np.prod(shape)) if shape else 1, dtype=dt).reshape(shape)


# ---- argument table: name -> (required shape, factory(value) -> object, sized-check(object))
def _w(fn):
    b = io.BytesIO()
    fn(b)
    return b.getvalue()


def _args():
    from basictdf.tdfCalibrationData import (BTSCameraData, CalibrationDataBlock, CalibrationDataBlockFormat, DistorsionModel,
                                             SeelabCameraData)
    from basictdf.tdfData3D import Data3D
    from basictdf.tdfForce3D import ForceTorque3D
    from basictdf.tdfOpticalSystem import OpticalChannelData
    from basictdf.tdfTypes import CameraViewPort

    vp = lambda: CameraViewPort(np.array([1, 2], dtype="<i4"), np.array([3, 4], dtype="<i4"))  # noqa

    def block_ok(cls, fmt):
        def chk(o):
            w = _w(o._write)
            if not (o.nBytes == len(w)):
                raise AssertionError(f"nBytes {o.nBytes} != {len(w)} written")
            s = io.BytesIO(w + b"\xEE" * 4)
            cls._build(s, getattr(o.format, "value", o.format))
            if not (s.tell() == len(w)):
                raise AssertionError(f"decode consumed {s.tell()} of {len(w)}")
        return chk

    def item_ok(cls):
        def chk(o):
            w = _w(o._write)
            if not (o.nBytes == len(w)):
                raise AssertionError(f"nBytes {o.nBytes} != {len(w)} written")
            s = io.BytesIO(w + b"\xEE" * 4)
            cls._build(s)
            if not (s.tell() == len(w)):
                raise AssertionError(f"decode consumed {s.tell()} of {len(w)}")
        return chk

    def vp_ok(o):
        w = o.write()
        if not (len(w) == 16 == CameraViewPort.nBytes):
            raise AssertionError(f"viewport wrote {len(w)} bytes")
        back = CameraViewPort.bread(io.BytesIO(w))
        if not (back.write() == w):
            raise AssertionError(f"check failed: back.write() == w")

    def d3(**kw):
        from basictdf.tdfData3D import Data3dBlockFormat, Flags

        a = dict(volume=good((3,)), rotationMatrix=good((3, 3)), translationVector=good((3,)))
        a.update(kw)
        if CONTEXT[0] == "alt":   # the other arguments take their less usual values
            return Data3D(-7, 1, a["volume"], a["rotationMatrix"], a["translationVector"], 2.5, Flags.filtered, Data3dBlockFormat.byTrackWithoutLinks)
        if CONTEXT[0].startswith("fmt:"):   # every member of the format enum, also the layouts the library cannot write
            members = list(Data3dBlockFormat)
            return Data3D(100, 10, a["volume"], a["rotationMatrix"], a["translationVector"], 0.0, Flags.rawData, members[int(CONTEXT[0][4:]) % len(members)])
        return Data3D(100, 10, a["volume"], a["rotationMatrix"], a["translationVector"])

    def f3(**kw):
        a = dict(volume=good((3,)), rotationMatrix=good((3, 3)), translationVector=good((3,)))
        a.update(kw)
        if CONTEXT[0] == "alt":
            return ForceTorque3D(0, 2 ** 31 - 1, a["volume"], a["rotationMatrix"], a["translationVector"], -0.0)
        if CONTEXT[0].startswith("fmt:"):
            from basictdf.tdfForce3D import ForceTorque3DBlockFormat

            members = list(ForceTorque3DBlockFormat)
            return ForceTorque3D(100, 10, a["volume"], a["rotationMatrix"], a["translationVector"], 0.0, members[int(CONTEXT[0][4:]) % len(members)])
        return ForceTorque3D(100, 10, a["volume"], a["rotationMatrix"], a["translationVector"])

    def cal(**kw):
        a = dict(calibration_volume_size=good((3,)), calibration_volume_rotation_matrix=good((3, 3)),
                 calibration_volume_translation_vector=good((3,)))
        a.update(kw)
        if CONTEXT[0].startswith("fmt:"):
            k = int(CONTEXT[0][4:])
            fm, dm = list(CalibrationDataBlockFormat), list(DistorsionModel)
            return CalibrationDataBlock(dm[k % len(dm)], a["calibration_volume_size"], a["calibration_volume_rotation_matrix"],
                                        a["calibration_volume_translation_vector"], np.array([], dtype="<i2"), [], fm[(k // len(dm)) % len(fm)])
        if CONTEXT[0] == "alt":
            return CalibrationDataBlock(DistorsionModel.Seelab1Distorsion, a["calibration_volume_size"], a["calibration_volume_rotation_matrix"],
                                        a["calibration_volume_translation_vector"], np.array([], dtype="<i2"), [], CalibrationDataBlockFormat.BTS)
        return CalibrationDataBlock(DistorsionModel.noDistorsion, a["calibration_volume_size"], a["calibration_volume_rotation_matrix"],
                                    a["calibration_volume_translation_vector"], np.array([], dtype="<i2"), [], CalibrationDataBlockFormat.Seelab1)

    def see(**kw):
        a = dict(rotation_matrix=good((3, 3)), translation_vector=good((3,)), focus=good((2,)), optical_center=good((2,)),
                 radial_distortion=good((2,)), decentering=good((2,)), thin_prism=good((2,)), view_port=vp())
        a.update(kw)
        return SeelabCameraData(**a)

    def bts(view_port):
        return BTSCameraData(good((3, 3)), good((3,)), good((2,)), good((2,)), np.zeros(70), np.zeros(70), view_port)

    def bts_ok(o):
        w = _w(o._write)
        if not (o.nBytes == len(w)):
            raise AssertionError(f"nBytes {o.nBytes} != {len(w)} written")
        s = io.BytesIO(w)
        BTSCameraData._build(s)
        if not (s.tell() == len(w)):
            raise AssertionError(f"check failed: s.tell() == len(w)")

    T = {}
    for name, shape in (("volume", (3,)), ("rotationMatrix", (3, 3)), ("translationVector", (3,))):
        T[f"Data3D.{name}"] = (shape, lambda v, n=name: d3(**{n: v}), block_ok(Data3D, 1), False)
        T[f"ForceTorque3D.{name}"] = (shape, lambda v, n=name: f3(**{n: v}), block_ok(ForceTorque3D, 1), False)
    for name, shape in (("calibration_volume_size", (3,)), ("calibration_volume_rotation_matrix", (3, 3)), ("calibration_volume_translation_vector", (3,))):
        T[f"CalibrationDataBlock.{name}"] = (shape, lambda v, n=name: cal(**{n: v}), block_ok(CalibrationDataBlock, 1), False)
    for name, shape in (("rotation_matrix", (3, 3)), ("translation_vector", (3,)), ("focus", (2,)), ("optical_center", (2,)),
                        ("radial_distortion", (2,)), ("decentering", (2,)), ("thin_prism", (2,))):
        T[f"SeelabCameraData.{name}"] = (shape, lambda v, n=name: see(**{n: v}), item_ok(SeelabCameraData), False)
    # viewport coercion from a (2,2) array
    T["SeelabCameraData.view_port"] = ((2, 2), lambda v: see(view_port=v), item_ok(SeelabCameraData), False)
    T["BTSCameraData.view_port"] = ((2, 2), bts, bts_ok, False)
    T["OpticalChannelData.camera_viewport"] = ((2, 2), lambda v: OpticalChannelData(1, "l", "t", "n", v), item_ok(OpticalChannelData), False)
    # viewport itself: arrays of shape (2,), and two-element lists/tuples
    T["CameraViewPort.origin"] = ((2,), lambda v: CameraViewPort(v, np.array([3, 4], dtype="<i4")), vp_ok, True)
    T["CameraViewPort.size"] = ((2,), lambda v: CameraViewPort(np.array([1, 2], dtype="<i4"), v), vp_ok, True)
    return T


ARG_NAMES = None
CONTEXT = ["std"]
_T = {}


def table():
    if not _T:
        _T.update(_args())
    return _T


ARG_LIST = ["Data3D.volume", "Data3D.rotationMatrix", "Data3D.translationVector",
            "ForceTorque3D.volume", "ForceTorque3D.rotationMatrix", "ForceTorque3D.translationVector",
            "CalibrationDataBlock.calibration_volume_size", "CalibrationDataBlock.calibration_volume_rotation_matrix",
            "CalibrationDataBlock.calibration_volume_translation_vector",
            "SeelabCameraData.rotation_matrix", "SeelabCameraData.translation_vector", "SeelabCameraData.focus",
            "SeelabCameraData.optical_center", "SeelabCameraData.radial_distortion", "SeelabCameraData.decentering",
            "SeelabCameraData.thin_prism", "SeelabCameraData.view_port", "BTSCameraData.view_port",
            "OpticalChannelData.camera_viewport", "CameraViewPort.origin", "CameraViewPort.size"]


def enum_shapes(tier):
    for arg in ARG_LIST:
        for shape in SHAPES:
            for dt in DTYPES:
                yield {"arg": arg, "shape": list(shape), "dtype": dt}
        if arg.split(".")[0] in ("Data3D", "ForceTorque3D", "CalibrationDataBlock"):
            for shape in SHAPES:   # same lattice with the OTHER arguments at unusual values (other format, flag, start time, counts)
                yield {"arg": arg, "shape": list(shape), "dtype": "<f8", "context": "alt"}
            for k in range(8):   # ... and with every value of the format (and distortion model) argument, unwritable layouts included
                for shape in SHAPES:
                    yield {"arg": arg, "shape": list(shape), "dtype": "<f8", "context": f"fmt:{k}"}
                for kind in KINDS:
                    yield {"arg": arg, "kind": kind, "context": f"fmt:{k}"}
        # the same questions after decodes that FAILED (truncated input of every block type): whatever a parser leaves set when it is
        # interrupted must not switch validation off
        for shape in SHAPES:
            yield {"arg": arg, "shape": list(shape), "dtype": "<f8", "prelude": "failed-parses"}
        for kind in KINDS:
            yield {"arg": arg, "kind": kind, "prelude": "failed-parses"}
        for kind in ("view-readonly", "view-strided", "masked", "subclass"):
            yield {"arg": arg, "kind": kind}
        for kind in KINDS:
            yield {"arg": arg, "kind": kind}
        # sequences of exactly the required outer length (the only non-array form the statement admits: viewports)
        for kind in ("list2", "tuple2", "list2-np-ints", "list1", "tuple3", "list0", "list-of-lists2", "tuple-of-tuples2"):
            yield {"arg": arg, "kind": kind}


_TRUNCATED = []


def failed_parses():
    """decode truncated encodings of all nine block types (each cut at several points); every one of them fails or not - nobody cares"""
    from .. import specs
    from .c20 import _roomy_block

    if not _TRUNCATED:
        for t in specs.TYPES:
            blk = _roomy_block(t, 3)
            data = specs.lib_write(blk)
            fmt = getattr(blk.format, "value", blk.format)
            cuts = sorted({len(data) - 1, len(data) - 5, len(data) // 2, len(data) // 3, max(1, len(data) - 100), 20, 9})
            _TRUNCATED.extend((t, fmt, data[:c]) for c in cuts if 0 < c < len(data))
        # Seelab-format calibration block cut inside a camera record
        from .c14 import _minimal
        cam = {"rot": [1] * 9, "trans": [0] * 3, "focus": [0] * 2, "center": [0] * 2, "radial": [0, 0], "decentering": [0, 0], "prism": [0, 0], "vp": [0, 0, 1, 1]}
        data = specs.lib_write(specs.build(dict(_minimal("calib"), format=1, cams=[cam, dict(cam)], map=[0, 1])))
        _TRUNCATED.extend(("calib", 1, data[:c]) for c in (len(data) - 3, len(data) - 100, len(data) - 200, len(data) - 250))
    for t, fmt, data in _TRUNCATED:
        try:
            specs.lib_class(t)._build(io.BytesIO(data), fmt)
        except Exception:  # noqa
            pass


_SIZED_OK = {}


def run_shape(ctx, case):
    arg = case["arg"]
    CONTEXT[0] = case.get("context", "std")
    if case.get("prelude") == "failed-parses":
        failed_parses()
    req, factory, sized, seq_ok = table()[arg]
    if "kind" in case and case["kind"] in ("view-readonly", "view-strided", "masked", "subclass"):
        # arrays of exactly the required shape in unusual guises: must be accepted and encode correctly
        k = case["kind"]
        base = np.arange(int(np.prod(req)) * 2 + 2, dtype="<f8")
        if k == "view-readonly":
            value = base[:int(np.prod(req))].reshape(req)
            value.flags.writeable = False
        elif k == "view-strided":
            value = base[: 2 * int(np.prod(req)): 2].reshape(req)
        elif k == "masked":
            value = np.ma.masked_array(np.ones(req), mask=np.zeros(req, dtype=bool))
        else:
            class Sub_(np.ndarray):
                pass
            value = np.ones(req).view(Sub_)
        should_accept, desc = True, f"{k} array of the required shape {req}"
    elif "kind" in case:
        k = case["kind"]
        if k in KINDS:
            value = kind_value(k, req)
            should_accept = seq_ok and k in ("list", "tuple", "nested-list")  # flat two-element sequences for viewports
        else:
            value = {"list2": [5, 6], "tuple2": (5, 6), "list2-np-ints": [np.int32(5), np.int32(6)], "list1": [5], "tuple3": (5, 6, 7), "list0": [],
                     "list-of-lists2": [[1, 2], [3, 4]], "tuple-of-tuples2": ((1, 2), (3, 4))}[k]
            should_accept = seq_ok and k in ("list2", "tuple2", "list2-np-ints")
        desc = f"{k} {value!r}"
    else:
        shape = tuple(case["shape"])
        value = np.ones(shape, dtype=case["dtype"])
        should_accept = shape == req
        desc = f"ndarray shape {shape} dtype {case['dtype']}"
    try:
        obj = factory(value)
        exc = None
    except Exception as e:  # noqa - any exception at construction time is a refusal
        obj, exc = None, e
    if should_accept and exc is not None:
        ctx.fail(f"{arg}/refuses-required-{'shape' if 'shape' in case else case['kind']}", f"{arg}: {desc} (the required form) was refused: {type(exc).__name__}: {exc}")
    if not should_accept and exc is None:
        ctx.fail(f"{arg}/accepts-{'wrong-shape' if 'shape' in case else 'kind-' + case['kind']}", f"{arg}: {desc} was accepted; required is shape {req}")
    if exc is None and CONTEXT[0].startswith("fmt:"):
        # a layout the library cannot write cannot be held to "encodes to its declared size": find out with an all-valid object
        key = (arg, CONTEXT[0])
        if key not in _SIZED_OK:
            try:
                sized(factory(np.ones(req)))
                _SIZED_OK[key] = True
            except Exception:  # noqa
                _SIZED_OK[key] = False
        if not _SIZED_OK[key]:
            obj, exc = None, "unwritable-layout"
    if exc is None:
        try:
            sized(obj)
        except Exception as e:  # noqa
            ctx.fail(f"{arg}/accepted-object-missized", f"{arg}: {desc} was accepted but the object does not encode to its declared size / decode: {type(e).__name__}: {e}")
    ctx.case(case, (not should_accept) or "kind" in case, labels=[arg, "accepted" if exc is None else "refused" if exc != "unwritable-layout" else "accepted-unwritable-layout",
                                                                   "context:" + CONTEXT[0].split(":")[0]] + (["after-failed-parses"] if case.get("prelude") else []))
    CONTEXT[0] = "std"


# ---------------------------------------------------------------------------------------
COUPLED = [(), (0,), (2,), (3,), (0, 3), (1, 3), (2, 3), (4, 3), (2, 2), (3, 3), (2, 4), (3, 2), (2, 3, 1), (1, 2, 3)]


def enum_coupled(tier):
    for a, f, t in itertools.product(range(len(COUPLED)), repeat=3):
        yield {"shapes": [list(COUPLED[a]), list(COUPLED[f]), list(COUPLED[t])], "dtype": "<f4"}
    for dt in DTYPES[1:]:
        for s in ((2, 3), (2, 2), (3,)):
            yield {"shapes": [list(s)] * 3, "dtype": dt}
    for i in range(3):
        for kind in ("none", "list", "int"):
            yield {"shapes": [[2, 3]] * 3, "dtype": "<f4", "bad": i, "kind": kind}
    # the SAME object handed over for two or all three arguments (application_point = force = torque = one array, as a placeholder would be)
    for s in COUPLED:
        for alias in ("all", "ap-force", "ap-torque", "force-torque"):
            for other in ((2, 3), (3, 3)):
                if alias == "all" and other != (2, 3):
                    continue
                yield {"shapes": [list(s)] * 3, "dtype": "<f4", "alias": alias, "other": list(other)}
    for kind in ("none", "list", "int", "str", "nested-list-ragged"):
        for alias in ("all", "ap-force", "ap-torque", "force-torque"):
            yield {"shapes": [[2, 3]] * 3, "dtype": "<f4", "alias": alias, "kind": kind, "bad": "aliased"}


def run_coupled(ctx, case):
    from basictdf.tdfForce3D import ForceTorqueTrack

    shapes = [tuple(s) for s in case["shapes"]]
    vals = [np.ones(s, dtype=case["dtype"]) for s in shapes]
    if "alias" in case:
        i, j, k = {"all": (0, 1, 2), "ap-force": (0, 1, None), "ap-torque": (0, 2, None), "force-torque": (1, 2, None)}[case["alias"]]
        if "kind" in case:
            shared = {"none": None, "list": [[1, 2, 3], [4, 5, 6]], "int": 3, "str": "abcdef", "nested-list-ragged": [[1, 2, 3], [4, 5]]}[case["kind"]]
        else:
            shared = vals[i]
            rest = [x for x in (0, 1, 2) if x not in (i, j, k)]
            for r in rest:
                vals[r] = np.ones(tuple(case["other"]), dtype=case["dtype"])
                shapes[r] = tuple(case["other"])
        for x in (i, j, k):
            if x is not None:
                vals[x] = shared
    if case.get("bad") == "aliased":
        required, unasserted = False, False
    elif "bad" in case:
        vals[case["bad"]] = {"none": None, "list": [[1, 2, 3], [4, 5, 6]], "int": 3}[case["kind"]]
        required, unasserted = False, False
    else:
        a = shapes[0]
        required = len(a) == 2 and a[1] == 3 and a[0] >= 1 and shapes[1] == a and shapes[2] == a
        unasserted = len(a) == 2 and a[1] == 3 and a[0] == 0 and shapes[1] == a and shapes[2] == a
    try:
        tr = ForceTorqueTrack("t", *vals)
        exc = None
    except Exception as e:  # noqa
        tr, exc = None, e
    desc = f"application_point {shapes[0]}, force {shapes[1]}, torque {shapes[2]}" + (f" with argument {case['bad']} = {case['kind']}" if "bad" in case else "") + \
        (f" ({case['alias']}: one and the same object)" if "alias" in case else "")
    if required and exc is not None:
        ctx.fail("ForceTorqueTrack/refuses-required-shape", f"ForceTorqueTrack: {desc} refused: {exc}")
    if not required and not unasserted and exc is None:
        ctx.fail("ForceTorqueTrack/accepts-wrong-shape", f"ForceTorqueTrack: {desc} was accepted; required are three (n,3) arrays of equal n")
    if exc is None and not unasserted:
        try:
            b = io.BytesIO()
            tr._write(b)
            w = b.getvalue()
            if not (tr.nBytes == len(w)):
                raise AssertionError(f"nBytes {tr.nBytes} != {len(w)} written")
            s = io.BytesIO(w + b"\xEE" * 4)
            ForceTorqueTrack._build(s, tr.nFrames)
            if not (s.tell() == len(w)):
                raise AssertionError(f"decode consumed {s.tell()} of {len(w)}")
        except Exception as e:  # noqa
            ctx.fail("ForceTorqueTrack/accepted-object-missized", f"ForceTorqueTrack: {desc} accepted but mis-sized: {type(e).__name__}: {e}")
    ctx.case(case, not required, labels=["coupled", "accepted" if exc is None else "refused"])


# ---------------------------------------------------------------------------------------
def enum_events(tier):
    vals = ["none", "int", "float", "object", "empty-list", "list1", "list2", "list5", "tuple1", "tuple2", "array0", "array1", "array2",
            "array1-f8", "array3-f4", "range3", "nested-list-1x2", "array-1x2-f4", "array-2x2-f8", "array-1x1-f4", "nested-list-2x1", "array0d",
            "ctypes1", "ctypes3", "getitem-seq1", "getitem-seq2", "generator1", "deque2", "array.array1", "memoryview1", "dict-keys1", "set1"]
    for kind in (0, 1):
        for v in vals:
            yield {"type": kind, "values": v}


def _exotic_iterables():
    """objects that iter() can walk although they are no list / tuple / array: some have no __iter__ at all (the old sequence protocol:
    __len__ + __getitem__, as ctypes arrays have), some are one-shot"""
    import array
    import collections
    import ctypes

    class Seq:   # old-style sequence: no __iter__
        def __init__(self, *v):
            self.v = v

        def __len__(self):
            return len(self.v)

        def __getitem__(self, i):
            return self.v[i]

    return {"ctypes1": (ctypes.c_float * 1)(0.25), "ctypes3": (ctypes.c_double * 3)(1, 2, 3), "getitem-seq1": Seq(1.5), "getitem-seq2": Seq(1.5, 2.5),
            "generator1": None, "deque2": collections.deque([1.5, 2.5]), "array.array1": array.array("f", [1.5]), "memoryview1": memoryview(array.array("f", [1.5])),
            "dict-keys1": {1.5: 0}.keys(), "set1": {1.5}}


def run_events(ctx, case):
    from basictdf.tdfEvents import Event, EventsDataType

    v = {"none": None, "int": 5, "float": 1.5, "object": object(), "empty-list": [], "list1": [1.5], "list2": [1.5, 2.5],
         "list5": [1, 2, 3, 4, 5], "tuple1": (1.5,), "tuple2": (1.5, 2.5), "array0": np.array([], dtype="<f4"),
         "array1": np.array([1.5], dtype="<f4"), "array2": np.array([1.5, 2.5], dtype="<f4"), "array1-f8": np.array([1.5]),
         "array3-f4": np.array([1, 2, 3], dtype="<f4"), "range3": range(3), "nested-list-1x2": [[1.5, 2.5]],
         "array-1x2-f4": np.array([[1.5, 2.5]], dtype="<f4"), "array-2x2-f8": np.array([[1.5, 2.5], [3.5, 4.5]]), "array-1x1-f4": np.array([[1.5]], dtype="<f4"),
         "nested-list-2x1": [[1.5], [2.5]], "array0d": np.array(1.5, dtype="<f4"), **_exotic_iterables()}[case["values"]]
    kind = EventsDataType(case["type"])
    if case["values"] in ("generator1", "dict-keys1", "set1"):
        # iterable, but numpy cannot make a flat float array of them (a generator / a view / a set is one object to it): whether the
        # constructor takes them is not something the statement decides - nothing is asserted, they only must not yield a mis-sized object
        v = (x for x in [1.5]) if case["values"] == "generator1" else v
        try:
            ev = Event("e", v, kind)
        except Exception:  # noqa
            ctx.case(case, False, labels=["event", "exotic-iterable-refused"])
            return
        b = io.BytesIO()
        try:
            ev._write(b)
            ok_ = ev.nBytes == len(b.getvalue())
        except Exception:  # noqa
            ok_ = False
        if not ok_:
            ctx.fail("Event/accepted-object-missized", f"Event({case['values']}, {kind.name}) accepted but it does not encode to its declared size")
        ctx.case(case, False, labels=["event", "exotic-iterable-accepted"])
        return
    iterable = case["values"] not in ("none", "int", "float", "object", "array0d")
    nested = case["values"].startswith(("nested-", "array-")) and "x" in case["values"]
    count = int(np.size(v)) if iterable else None   # the number of VALUES handed in (a nested [[a, b]] holds two)
    should_accept = iterable and not nested and (kind == EventsDataType.eventSequence or count <= 1)
    unasserted = nested and count <= 1              # [[x]]: one value in an odd wrapping - either way is fine
    try:
        ev = Event("e", v, kind)
        exc = None
    except Exception as e:  # noqa
        ev, exc = None, e
    if unasserted:
        should_accept = exc is None
    if should_accept and exc is not None:
        ctx.fail("Event/refuses-valid", f"Event({case['values']}, {kind.name}) refused: {type(exc).__name__}: {exc}")
    if not should_accept and exc is None:
        why = "non-iterable values" if not iterable else "values that are not a flat sequence" if nested else "more than one value for a single event"
        ctx.fail(f"Event/accepts-{'non-iterable' if not iterable else 'nested-values' if nested else 'many-for-single'}", f"Event({case['values']}, {kind.name}) accepted ({why})")
    if exc is None:
        try:
            b = io.BytesIO()
            ev._write(b)
            w = b.getvalue()
            if not (ev.nBytes == len(w)):
                raise AssertionError(f"nBytes {ev.nBytes} != {len(w)} written")
            s = io.BytesIO(w + b"\xEE" * 4)
            Event._build(s)
            if not (s.tell() == len(w)):
                raise AssertionError(f"check failed: s.tell() == len(w)")
        except Exception as e:  # noqa
            ctx.fail("Event/accepted-object-missized", f"Event({case['values']}, {kind.name}) accepted but mis-sized: {type(e).__name__}: {e}")
    ctx.case(case, not should_accept or not isinstance(v, np.ndarray), labels=["event", "accepted" if exc is None else "refused"])


# ---------------------------------------------------------------------------------------
SEELAB_PAIR_ARGS = ["focus", "optical_center", "radial_distortion", "decentering", "thin_prism"]


def enum_joint(tier):
    """TWO or more arguments of one call mis-shaped at once, in ways that cancel out in any aggregate (total length, total size): the five (2,)
    parameters of a Seelab camera record with lengths (3,1), (1,3), (0,4), (4,0), (3,3,0,...); the three (n,3) arrays of a force track with
    transposed / flattened shapes of the same size"""
    for i, a in enumerate(SEELAB_PAIR_ARGS):
        for b in SEELAB_PAIR_ARGS[i + 1:]:
            for la, lb in ((3, 1), (1, 3), (0, 4), (4, 0)):
                yield {"what": "seelab", "lengths": {a: la, b: lb}}
    for trio in (("focus", "optical_center", "thin_prism"), ("radial_distortion", "decentering", "thin_prism")):
        for ls in ((3, 3, 0), (0, 3, 3), (4, 1, 1), (1, 1, 4)):
            yield {"what": "seelab", "lengths": dict(zip(trio, ls))}
    for shapes in (((3, 2), (3, 2), (3, 2)), ((6,), (6,), (6,)), ((1, 6), (1, 6), (1, 6)), ((2, 3), (3, 2), (2, 3)), ((2, 3), (6,), (2, 3)), ((3, 2), (2, 3), (2, 3))):
        yield {"what": "force-track", "shapes": [list(s) for s in shapes]}


def run_joint(ctx, case):
    from basictdf.tdfCalibrationData import SeelabCameraData
    from basictdf.tdfForce3D import ForceTorqueTrack

    if case["what"] == "seelab":
        args = {"rotation_matrix": np.eye(3), "translation_vector": np.ones(3), "view_port": np.array([[0, 0], [640, 480]], dtype="<i4")}
        for name in SEELAB_PAIR_ARGS:
            args[name] = np.ones(case["lengths"].get(name, 2))
        fn, desc = (lambda: SeelabCameraData(**args)), "SeelabCameraData with " + ", ".join(f"{k} of shape ({v},)" for k, v in case["lengths"].items())
    else:
        vals = [np.ones(tuple(s), dtype="<f4") for s in case["shapes"]]
        fn, desc = (lambda: ForceTorqueTrack("t", *vals)), f"ForceTorqueTrack with shapes {case['shapes']}"
    try:
        fn()
        accepted = True
    except Exception:  # noqa
        accepted = False
    if accepted:
        ctx.fail(f"{case['what']}/accepts-jointly-wrong-shapes", f"{desc} (every one of them wrong, together adding up to the right total) was accepted")
    ctx.case(case, True, labels=["joint", case["what"]])


def enum_lifetimes(tier):
    """a valid argument that is a TEMPORARY (a row of a table, a reshape, a slice: freed as soon as the call returns) followed at once by a
    wrong-shaped one - which CPython likes to allocate at the address just freed: a decision remembered by id() is a decision about another object"""
    for arg in ("OpticalChannelData.camera_viewport", "MarkerTrack-in-Data3D", "EMGTrack-in-EMG"):
        for rounds in (400,):
            yield {"arg": arg, "rounds": rounds}


def run_lifetimes(ctx, case):
    from basictdf.tdfData3D import Data3D, MarkerTrack
    from basictdf.tdfEMG import EMG, EMGTrack
    from basictdf.tdfOpticalSystem import OpticalChannelData

    arg, wrong = case["arg"], 0
    bad_shapes = [(3, 2), (2, 3), (2,), (4,), (2, 2, 2), (), (1, 2), (2, 1)]
    table = np.arange(4 * case["rounds"], dtype="<i4").reshape(case["rounds"], 2, 2)
    for i in range(case["rounds"]):
        if arg == "OpticalChannelData.camera_viewport":
            OpticalChannelData(i, "l", "t", "n", table[i])          # a view: gone when the call returns
            shape = bad_shapes[i % len(bad_shapes)]
            try:
                OpticalChannelData(i, "l", "t", "n", np.zeros(shape, dtype="<i4"))
                wrong += 1
                ctx.fail("lifetimes/viewport-accepted-after-a-freed-valid-one", f"OpticalChannelData accepted a viewport array of shape {shape} right after a valid temporary (2,2) "
                                                                                f"view had been validated and freed (round {i})")
            except Exception:  # noqa
                pass
        else:
            n = 3
            if arg.startswith("Marker"):
                blk = Data3D(100, n, np.ones(3, "<f4"), np.eye(3, dtype="<f4"), np.ones(3, "<f4"))
                good, bad, add = (lambda: MarkerTrack("g", np.ones((n, 3), "<f4"))), (lambda: MarkerTrack("b", np.ones((n + 1, 3), "<f4"))), blk.add_track
            else:
                blk = EMG(1000, n)
                good, bad, add = (lambda: EMGTrack("g", np.ones(n, "<f4"))), (lambda: EMGTrack("b", np.ones(n + 1, "<f4"))), blk.addSignal
            add(good())
            if arg.startswith("Marker"):
                blk.tracks = []          # the valid track leaves the block and is released
            else:
                blk.removeSignal("g")
            try:
                add(bad())
                ctx.fail("lifetimes/wrong-length-track-accepted-after-a-freed-valid-one", f"{arg}: a track of {n + 1} frames was accepted by a block of {n} frames right after a "
                                                                                          f"valid track had been added, removed and released (round {i})")
            except Exception:  # noqa
                pass
    ctx.case(case, True, labels=["lifetimes", arg])


class _Sub:
    """run_events for one step of a sequence: verdicts carry the sequence in their key and text, the step is not a case of its own"""

    def __init__(self, ctx, first):
        self.ctx, self.first = ctx, first

    def fail(self, key, msg, *a, **k):
        self.ctx.fail("after-" + self.first + "/" + key, f"(first constructor call of the process: Event({self.first})) " + msg, *a, **k)

    def case(self, *a, **k):
        pass

    def __getattr__(self, name):
        return getattr(self.ctx, name)


def enum_event_orders(tier):
    vals = [c["values"] for c in enum_events(tier) if c["type"] == 0]
    for first in vals:
        for kind in (0, 1):
            yield {"first": first, "first_type": kind}


def run_event_orders(ctx, case):
    """what the FIRST constructor call of a process was (accepted or refused) has no influence on any later one: the library's module state is
    put back to its import-time content before every case, then Event(first) is called, then every other value is judged as usual"""
    env.reset_library_state()
    sub = _Sub(ctx, f"{case['first']}:{case['first_type']}")
    try:
        run_events(sub, {"type": case["first_type"], "values": case["first"]})
    except Exception as e:  # noqa - judged when it is its own case; here it only sets the scene
        if type(e).__name__ in ("Violation", "Abandon"):
            raise
    n = 0
    for c in enum_events("quick"):
        if c["values"] in ("generator1",):
            continue
        run_events(sub, c)
        n += 1
    ctx.case(case, True, labels=["event-order", "first=" + case["first"]])


SUBS = [
    Sub("jointly-wrong-arguments", run_joint, kind="enum", enumerate=enum_joint, shards=(2, 4),
        rule="two or three arguments of ONE call mis-shaped so that an aggregate still fits: every pair of the five (2,) Seelab camera parameters with lengths (3,1) (1,3) (0,4) "
             "(4,0), triples (3,3,0) (4,1,1) ..., force-track arrays transposed / flattened to the same size: refused; finite, enumerated", nontrivial_required=False),
    Sub("argument-lifetimes", run_lifetimes, kind="enum", enumerate=enum_lifetimes, shards=(1, 3),
        rule="a valid argument that is a temporary (row of a table; a track added, removed and released) followed at once by a wrong-shaped one, 400 rounds each for the optical "
             "viewport, marker tracks and EMG signals: refused every time (a decision remembered by id() outlives its object); finite, enumerated", nontrivial_required=False),
    Sub("event-call-orders", run_event_orders, kind="enum", enumerate=enum_event_orders, shards=(4, 8),
        rule="for each of the 32 kinds of values (x both event types) as the FIRST Event constructor call after the library's module state was put back to its import-time "
             "content: all 64 (values, type) combinations judged afterwards exactly as in `events`; finite, enumerated", nontrivial_required=False),
    Sub("shape-lattice", run_shape, kind="enum", enumerate=enum_shapes, shards=(8, 16),
        rule="21 validated arguments x (171 shapes x 6 dtypes + 18 non-array kinds); finite, enumerated completely"),
    Sub("coupled-arrays", run_coupled, kind="enum", enumerate=enum_coupled, shards=(4, 8),
        rule="ForceTorqueTrack: full triple product of a 14-shape lattice + dtype variants + non-array kinds per position; finite, enumerated completely"),
    Sub("events", run_events, kind="enum", enumerate=enum_events, shards=(1, 1),
        rule="Event: 17 value forms x both kinds; finite, enumerated completely"),
]
# ---------------------------------------------------------------------------------------
# the same accept / refuse decisions when several threads construct objects at the same time (the harness owns the schedule as far
# as CPython lets it: a switch interval of a microsecond); each call is judged on its own arguments
def enum_threads(tier):
    for arg in ARG_LIST:
        yield {"arg": arg, "threads": 4, "calls": 5000 if tier == "quick" else 20000}


def run_threads(ctx, case):
    import sys
    import threading

    arg = case["arg"]
    CONTEXT[0] = "std"
    req, factory, sized, seq_ok = table()[arg]
    good = lambda: np.ones(req)  # noqa
    bads = [np.ones(tuple(x + 1 for x in req)), np.ones(req + (1,)), np.ones(())]
    wrong = []
    lock = threading.Lock()

    def worker(k):
        for i in range(case["calls"]):
            bad = (i + k) % 2 == 1
            val = bads[(i // 2 + k) % len(bads)] if bad else good()
            try:
                factory(val)
                accepted = True
            except Exception:  # noqa
                accepted = False
            if accepted == bad:
                with lock:
                    wrong.append(("accepted shape %s" % (val.shape,)) if bad else "refused the required shape")
                return

    old = sys.getswitchinterval()
    sys.setswitchinterval(1e-6)
    try:
        ts = [threading.Thread(target=worker, args=(k,)) for k in range(case["threads"])]
        for th in ts:
            th.start()
        for th in ts:
            th.join()
    finally:
        sys.setswitchinterval(old)
    if wrong:
        ctx.fail(f"{arg}/threads/wrong-decision", f"{arg}: with {case['threads']} threads constructing objects at the same time, a call {wrong[0]} (required: {req}); "
                                                  f"one thread at a time every decision is right")
    ctx.case(case, True, labels=[arg, "threads"])


SUBS.append(Sub("concurrent-constructors", run_threads, kind="enum", enumerate=enum_threads, shards=(4, 8),
                rule="each of the 21 validated arguments: 4 threads x 5000 (thorough 20000) constructor calls alternating the required shape and wrong shapes, thread switch interval 1 us; "
                     "every call judged on its own arguments; finite, enumerated", nontrivial_required=False))

from ..core import optimised_child_sub  # noqa: E402
SUBS.append(optimised_child_sub("C19", ["shape-lattice", "coupled-arrays", "events"]))
