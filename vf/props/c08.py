"""C08 - files are only modified inside an explicitly write-enabled context."""
import os
import sys

from hypothesis import strategies as st

from .. import container, env, reftdf, specs
from ..core import Sub, build_machine, run_history

PROP = {
    "id": "C08",
    "level": "fault_enumeration",
    "technique": "exhaustive matrix of (8 mutators + 21 readers) x 10 scripted access modes x 3 file images (scripted histories through one interpreter) + Hypothesis RuleBasedStateMachine interleaving allow_write / enter / exit / exit-by-exception / new object / mutators / readers with an explicit mode model (armed, inside, write); oracle: bytes changed => the call was a mutator issued inside a context entered after allow_write(); otherwise the mutator must raise; readers never change bytes, mtime or size, and implicitly opened handles are closed (handler.closed, /proc/self/fd count); readers include unfinished loops over the file; mutators are also offered the very content the file already holds",
    "level_text": ("Fault enumeration: the mutator x mode matrix (add_block, remove_block, replace_block and the five setters; ten scripted modes: no context, "
                   "allow_write without context, read-only context, write context, context re-entered after a write context, context "
                   "left through an exception (then plain context / no context), allow_write issued inside a read-only context, no context "
                   "after a write context, armed then reader then context) plus 21 readers incl. a bare '==' is enumerated completely on three file "
                   "images; a state machine then explores arbitrary interleavings on generated images. Every call is bracketed by a "
                   "byte-for-byte comparison of the file."),
    "level_note": "Trusted: the mode model in this module (allow_write arms; entering a context - also an implicit one opened by a reader - consumes the arm; leaving any context disarms). Nested contexts and non-TDF files are not generated. Inside a proper write context the outcome of the mutation itself is not judged here (C11 / C07 do that).",
    "design_ref": "DESIGN.md section 4, C08",
    "rule": ("case = {init image, ops}; non-trivial = a mutator attempted in a non-write mode, or a write context followed by a re-entered "
             "plain context; distinct by sha1 of the history"),
    "assumptions": ["/proc/self/fd lists this process's open descriptors"],
}

MUTATORS = ["add_block", "remove_block", "replace_block", "set-data3D", "set-force_and_torque", "set-force_platforms_data", "set-events", "set-emg"]
READERS = ["blocks", "get_block-type", "get_block-index", "get_block-out-of-range", "getitem", "data3D", "force_and_torque", "force_platforms_data", "events", "emg",
           "calibrationData", "has_data3D", "has_force_and_torque", "has_events", "has_emg", "has_force_platforms_data", "len", "nBytes", "eq", "eq-bare", "repr", "copy", "copy-into-directory",
           "iter-first", "iter-zip", "iter-all", "object-copies"]
SETTER_TYPE = {"set-data3D": "data3D", "set-force_and_torque": "force3D", "set-force_platforms_data": "platData", "set-events": "events", "set-emg": "emg"}


def nfds():
    return len(os.listdir("/proc/self/fd"))


class Boom(Exception):
    pass


class Interp:
    def __init__(self, ctx, init):
        from basictdf import Tdf

        self.ctx = ctx
        self.dir = env.fresh_dir()
        self.path = os.path.join(self.dir, "f.tdf")
        if init["source"] == "new":
            Tdf.new(self.path)
        else:
            blocks = []
            for b in init["blocks"]:
                if b["kind"] == "opaque":
                    blocks.append({"type": b["type"], "format": b["format"], "payload": container.opaque_payload(b["seed"], b["size"]),
                                   "comment": b["comment"], "cdate": b["cdate"], "mdate": b["mdate"]})
                else:
                    blocks.append({"type": reftdf.TYPE_CODE[b["spec"]["t"]], "format": b["spec"]["format"], "payload": reftdf.encode(b["spec"]),
                                   "comment": b["comment"], "cdate": b["cdate"], "mdate": b["mdate"]})
            with open(self.path, "wb") as f:
                f.write(reftdf.build_image(init["N"], blocks, version=init.get("version", 1)))
        self.objs = [Tdf(self.path), Tdf(self.path)]
        self.states = [{"armed": False, "inside": False, "write": False}, {"armed": False, "inside": False, "write": False}]
        self.cur = 0
        self.entered_once = False
        self.copies = 0
        self.stats = {"mutator-in-non-write-mode": 0, "mutator-in-write-mode": 0, "write-then-plain-reentry": 0, "readers": 0,
                      "exit-by-exception": 0, "implicit-open": 0}
        self.had_write_context = False
        self.resync()

    # the object the current operation talks to, and its modelled mode
    @property
    def tdf(self):
        return self.objs[self.cur]

    @tdf.setter
    def tdf(self, v):
        self.objs[self.cur] = v

    def _g(self, k):
        return self.states[self.cur][k]

    def _s(self, k, v):
        self.states[self.cur][k] = v

    armed = property(lambda self: self._g("armed"), lambda self, v: self._s("armed", v))
    inside = property(lambda self: self._g("inside"), lambda self, v: self._s("inside", v))
    write = property(lambda self: self._g("write"), lambda self, v: self._s("write", v))

    def resync(self):
        p = reftdf.parse_container(self.read())
        self.N = p["nEntries"]
        self.live = [e["type"] for _, e in reftdf.live(p)]

    def read(self):
        with open(self.path, "rb") as f:
            return f.read()

    def close(self):
        for it in getattr(self, "kept_iterators", []):
            try:
                getattr(it, "close", lambda: None)()   # nothing of this case lives on into the next one
            except Exception:
                pass
        self.kept_iterators = []
        for i, o in enumerate(self.objs):
            try:
                if self.states[i]["inside"]:
                    o.__exit__(None, None, None)
            except Exception:
                pass
        env.rmdir(self.dir)

    def mode_name(self):
        if self.inside:
            return "write-context" if self.write else "read-context"
        return "armed-no-context" if self.armed else "no-context"

    # ------------------------------------------------------------------------------------
    def apply(self, op):
        o = op["op"]
        self.cur = op.get("obj", 0) % 2
        if self.cur == 1:
            self.stats["second-object-ops"] = self.stats.get("second-object-ops", 0) + 1
        before = self.read()
        st0 = os.stat(self.path)
        if o == "allow_write":
            self.tdf.allow_write()
            self.armed = True
        elif o == "enter":
            if self.inside:
                return
            self.tdf.__enter__()
            self.inside, self.write, self.entered_once = True, self.armed, True
            if self.write:
                self.had_write_context = True
            elif self.had_write_context:
                self.stats["write-then-plain-reentry"] += 1
        elif o == "exit":
            if not self.inside:
                return
            if op.get("exception"):
                try:
                    raise Boom("user code failed inside the context")
                except Boom:
                    self.tdf.__exit__(*sys.exc_info())
                self.stats["exit-by-exception"] += 1
            else:
                self.tdf.__exit__(None, None, None)
            self.inside = self.write = self.armed = False
            self.check_clones()
        elif o == "limited-session":
            # a whole write session during which the operating system does not let the file grow (RLIMIT_FSIZE; a full disk or a quota does
            # the same): the mutation fails, closing the context may fail too - but the session is over, and so is its permission to write
            if self.inside:
                return
            import resource
            import signal

            from .c07 import labelled_spec

            t = self.tdf
            absent = [x for x in ("events", "emg", "optical", "platCal") if reftdf.TYPE_CODE[x] not in self.live]
            t.allow_write()
            size = os.path.getsize(self.path)
            old_sig = signal.signal(signal.SIGXFSZ, signal.SIG_IGN)
            soft, hard = resource.getrlimit(resource.RLIMIT_FSIZE)
            try:
                t.__enter__()
                resource.setrlimit(resource.RLIMIT_FSIZE, (size, hard))
                try:
                    if absent and self.N - len(self.live) > 0:
                        t.add_block(specs.build(labelled_spec(absent[0], 1)), "does not fit")
                except Exception:  # noqa
                    pass
                try:
                    t.__exit__(None, None, None)
                except Exception:  # noqa - closing flushes what could not be written
                    pass
            finally:
                resource.setrlimit(resource.RLIMIT_FSIZE, (soft, hard))
                signal.signal(signal.SIGXFSZ, old_sig)
            h = getattr(t, "handler", None)
            if h is not None and not h.closed:
                try:
                    h.close()
                except Exception:  # noqa
                    pass
            self.inside = self.write = self.armed = False
            self.had_write_context = self.entered_once = True
            self.stats["write-sessions-under-a-size-limit"] = self.stats.get("write-sessions-under-a-size-limit", 0) + 1
            self.resync()
            return
        elif o == "new-object":
            if self.inside:
                return
            from basictdf import Tdf

            self.tdf = Tdf(self.path)
            self.armed = self.entered_once = False
        elif o == "mutate":
            self.mutate(op, before)
            return
        elif o == "read":
            self.reader(op, before, st0)
            return
        else:
            raise env.HarnessError(o)
        if self.read() != before:
            self.ctx.fail(f"{o}/changes-file", f"{o} changed the bytes of the file")

    def mutate(self, op, before):
        from basictdf.tdfBlock import BlockType

        which = op["which"]
        allowed = self.inside and self.write
        # pick an applicable request (the request itself is valid; only the access mode varies)
        writable_live = [reftdf.CODE_TYPE[c] for c in self.live if c in reftdf.CODE_TYPE]
        absent = [t for t in specs.TYPES if reftdf.TYPE_CODE[t] not in self.live]
        free = self.N - len(self.live) > 0
        k = op.get("k", 0)
        t = self.tdf
        from .c14 import _minimal
        from .c07 import labelled_spec

        def blk(name):
            if k % 4 == 3 and which != "add_block" and reftdf.TYPE_CODE[name] in self.live:
                # the very content the file already holds (a block just read, stored again): "nothing to do" is not a permission
                data_ = self.read()
                e_ = next(e for _, e in reftdf.live(reftdf.parse_container(data_)) if e["type"] == reftdf.TYPE_CODE[name])
                try:
                    spec_ = reftdf.decode(name, e_["format"], data_[e_["offset"]:e_["offset"] + e_["size"]])[0]
                    self.stats["stored-content-offered-again"] = self.stats.get("stored-content-offered-again", 0) + 1
                    return specs.build(spec_)
                except reftdf.RefError:
                    pass
            if k == 2 and name == "emg":
                # a block of more than a MiB (a writer that makes room for big blocks ahead of time shows)
                n_ = 300_000
                return specs.build({"t": "emg", "format": 1, "frequency": 1000, "startTime": 0, "nSamples": n_, "_chmode": "explicit",
                                    "signals": [{"label": "big", "channel": 0, "frames": [0x3F800000] * n_}]})
            return specs.build(labelled_spec(name, 1 + k % 2) if name not in ("calib",) else _minimal(name))

        if which == "add_block":
            if not (absent and free):
                return
            name = absent[k % len(absent)] if not (k == 2 and "emg" in absent) else "emg"
            fn = lambda: t.add_block(blk(name), "c08")  # noqa
        elif which == "remove_block":
            if not self.live:
                return
            code = self.live[k % len(self.live)]
            fn = lambda: t.remove_block(BlockType(code))  # noqa
        elif which == "replace_block":
            if not writable_live:
                return
            name = writable_live[k % len(writable_live)]
            fn = lambda: t.replace_block(blk(name))  # noqa
        else:
            name = SETTER_TYPE[which]
            if reftdf.TYPE_CODE[name] not in self.live and not free:
                return
            fn = lambda: setattr(t, which[4:], blk(name))  # noqa
        try:
            fn()
            raised = None
        except Exception as e:  # noqa
            raised = e
        after = self.read()
        mode = self.mode_name()
        if allowed:
            self.stats["mutator-in-write-mode"] += 1
            self.ctx.label(f"cell:{which}|write-context")
            if after != before:
                self.resync()
            return
        self.stats["mutator-in-non-write-mode"] += 1
        self.ctx.label(f"cell:{which}|{mode}{'+exited-write-context-before' if self.had_write_context else ''}")
        if after != before:
            self.ctx.fail(f"{which}/{mode}/file-changed",
                          f"{which} issued in mode '{mode}' (armed={self.armed}, earlier write context={self.had_write_context}) changed the file "
                          f"({len(before)} -> {len(after)} bytes){'' if raised is None else ' although it raised ' + type(raised).__name__}")
        if raised is None:
            self.ctx.fail(f"{which}/{mode}/not-refused", f"{which} issued in mode '{mode}' (armed={self.armed}) did not raise")

    def reader(self, op, before, st0):
        from basictdf import Tdf
        from basictdf.tdfBlock import BlockType

        which = op["which"]
        t = self.tdf
        k = op.get("k", 0)
        fds0 = nfds()
        was_inside = self.inside

        def call():
            if which == "blocks":
                return t.blocks
            if which == "get_block-type":
                codes = self.live or [16]
                return t.get_block(BlockType(codes[k % len(codes)]))
            if which == "get_block-index":
                return t.get_block(k % max(1, self.N))
            if which == "get_block-out-of-range":
                return t.get_block(self.N + k % 3)
            if which == "getitem":
                return t[k % max(1, self.N)]
            if which in ("data3D", "force_and_torque", "force_platforms_data", "events", "emg", "calibrationData") or which.startswith("has_"):
                return getattr(t, which)
            if which == "object-copies":
                # the Tdf object is copied / deep-copied / pickled (a worker pool does that) - whether that works is not the point; a copy that
                # exists is an object nobody called allow_write() on and nobody entered: checked when the original's context has ended
                import copy as _copy
                import pickle

                for fn_ in (_copy.copy, _copy.deepcopy, lambda o: pickle.loads(pickle.dumps(o))):
                    try:
                        self.clones = getattr(self, "clones", []) + [(self.cur, fn_(t))]
                    except Exception:  # noqa
                        pass
                return None
            if which == "iter-first":
                # a loop over the file that is not run to the end, its iterator kept alive by the caller: it = iter(t); next(it)
                it = iter(t)
                self.kept_iterators = getattr(self, "kept_iterators", []) + [it]
                return next(it)
            if which == "iter-zip":
                it = iter(t)
                self.kept_iterators = getattr(self, "kept_iterators", []) + [it]
                return list(zip(it, range(1 + k % 2)))
            if which == "iter-all":
                import itertools

                return list(itertools.islice(iter(t), self.N + 3))
            if which == "len":
                return len(t)
            if which == "nBytes":
                return t.nBytes
            if which == "repr":
                return repr(t)
            if which == "eq":
                other = Tdf(self.path)
                with other:
                    if was_inside:
                        return t == other
                    with t:
                        return t == other
            if which == "eq-bare":   # no context supplied by the caller: whatever '==' does, it must clean up after itself
                other = Tdf(self.path)
                try:
                    return t == other
                finally:
                    oh = getattr(other, "handler", None)
                    if oh is not None and not oh.closed:
                        self.leaked_other = True
                        oh.close()
            if which == "copy-into-directory":
                # the target is an existing DIRECTORY that already holds a file named like the source: whatever copy() makes of a directory
                # target, no file that exists may change
                self.copies += 1
                sub = os.path.join(self.dir, f"session{self.copies}")
                os.mkdir(sub)
                victim = os.path.join(sub, os.path.basename(self.path))
                with open(victim, "wb") as fh:
                    fh.write(b"precious " * 50)
                try:
                    t.copy(sub)
                except Exception:  # noqa
                    pass
                if open(victim, "rb").read() != b"precious " * 50:
                    self.victim_changed = True
                return None
            if which == "copy":
                self.copies += 1
                cp = t.copy(os.path.join(self.dir, f"copy{self.copies}.tdf"))
                self.check_copy_is_read_only(cp)
                return cp

        self.leaked_other = False
        self.victim_changed = False
        try:
            call()
        except Exception:  # noqa - a reader may refuse (absent block, undecodable type, never entered); it must just not write
            pass
        if self.victim_changed:
            self.ctx.fail("reader-copy-into-directory/existing-file-overwritten", "copy() with an existing directory as target overwrote a file that already existed inside it")
        if self.leaked_other:
            self.ctx.fail(f"reader-{which}/handle-left-open", "'==' left the implicitly opened handle of its right operand open")
        self.stats["readers"] += 1
        if which == "eq" and not was_inside:
            # the harness itself opened a plain context around the comparison: that disarms like any context
            self.armed = False
        if which == "eq-bare" and not was_inside and not getattr(t, "_inside_context", False):
            # if '==' opened an implicit context on the left operand it has consumed the arm like any context; if it raised
            # before opening anything the arm is untouched - learn which from the object's documented mode flag
            self.armed = getattr(t, "_mode", "rb") == "r+b"
        implicit = not was_inside and which not in ("nBytes", "copy", "copy-into-directory", "len", "eq", "eq-bare", "object-copies")
        if implicit:
            self.stats["implicit-open"] += 1
            self.armed = False  # an implicit context consumes the arm as any context exit does
            self.entered_once = True
        after = self.read()
        st1 = os.stat(self.path)
        self.ctx.label(f"reader:{which}|{'inside' if was_inside else 'outside'}")
        if after != before or st1.st_size != st0.st_size or st1.st_mtime_ns != st0.st_mtime_ns or st1.st_mode != st0.st_mode:
            self.ctx.fail(f"reader-{which}/modifies-file", f"reader {which} in mode '{self.mode_name()}' modified the file (bytes equal: {after == before}, "
                                                           f"mtime {st0.st_mtime_ns} -> {st1.st_mtime_ns})")
        if not was_inside:
            h = getattr(t, "handler", None)
            if h is not None and not h.closed:
                self.ctx.fail(f"reader-{which}/handle-left-open", f"reader {which} called outside a context left the file handle open")
            if nfds() != fds0:
                self.ctx.fail(f"reader-{which}/descriptor-leak", f"reader {which} called outside a context changed the number of open descriptors {fds0} -> {nfds()}")
            if getattr(t, "_inside_context", False):
                self.ctx.fail(f"reader-{which}/still-inside", f"after reader {which} the object believes it is still inside a context")

    def check_clones(self):
        """copies of the object taken earlier (copy / deepcopy / pickle), tried now that the original is outside any context: a mutator on a copy,
        with no context and no allow_write() of its own, must raise and change nothing; and it holds no open handle of its own"""
        from basictdf.tdfBlock import BlockType

        from .c07 import labelled_spec

        mine = [c for o, c in getattr(self, "clones", []) if o == self.cur]       # (only the copies of the object whose context has just ended)
        self.clones = [(o, c) for o, c in getattr(self, "clones", []) if o != self.cur]
        for c in mine:
            before = self.read()
            live = list(self.live)
            absent = [n for n in ("events", "emg", "optical", "platCal") if reftdf.TYPE_CODE[n] not in live]
            raised = True
            try:
                if live:
                    c.remove_block(BlockType(live[0]))
                elif absent:
                    c.add_block(specs.build(labelled_spec(absent[0], 1)))
                raised = False
            except Exception:  # noqa
                pass
            self.stats["copies-of-the-object-tried"] = self.stats.get("copies-of-the-object-tried", 0) + 1
            if self.read() != before:
                self.ctx.fail("object-copy/mutator-changes-file", "a copy (copy.copy / deepcopy / pickle) of a Tdf object taken inside its context was handed a mutator after that "
                                                                  "context had ended - no context, no allow_write() of its own - and the file changed")
                self.resync()
            elif not raised:
                self.ctx.fail("object-copy/mutator-not-refused", "a mutator on a copy of a Tdf object, outside any context, did not raise")
            h = getattr(c, "handler", None)
            if h is not None and not h.closed and h is not getattr(self.tdf, "handler", None):
                self.ctx.fail("object-copy/own-handle-left-open", "a copy of a Tdf object holds an open file handle of its own after the original's context ended")
                try:
                    h.close()
                except Exception:  # noqa
                    pass

    def check_copy_is_read_only(self, cp):
        """the object returned by copy() never saw allow_write(): a mutation through it, in a plain context, must raise and leave the copy untouched"""
        from .c07 import labelled_spec

        data = open(cp.file_path, "rb").read()
        parsed = reftdf.parse_container(data)
        live = [e["type"] for _, e in reftdf.live(parsed)]
        name = next((n for n in ("events", "emg", "optical", "data3D", "platCal") if reftdf.TYPE_CODE[n] not in live), None)
        raised = True
        try:
            with cp as c:
                if name is not None and len(live) < parsed["nEntries"]:
                    c.add_block(specs.build(labelled_spec(name, 1)))
                    raised = False
                elif live:
                    from basictdf.tdfBlock import BlockType

                    c.remove_block(BlockType(live[0]))
                    raised = False
        except Exception:  # noqa
            pass
        if open(cp.file_path, "rb").read() != data:
            self.ctx.fail("copy/returned-object-write-enabled", f"the object returned by copy() (source in mode '{self.mode_name()}') modified its file in a plain context without allow_write()")
        elif not raised:
            self.ctx.fail("copy/returned-object-mutator-not-refused", "a mutator on the object returned by copy(), in a plain context, did not raise")
        h = getattr(cp, "handler", None)
        if h is not None and not h.closed:
            self.ctx.fail("copy/returned-object-handle-open", "the object returned by copy() keeps an open handle")

    def finish(self):
        pass


def summarize(it, case):
    return bool(it.stats["mutator-in-non-write-mode"] or it.stats["write-then-plain-reentry"]), [k for k, v in it.stats.items() if v]


# ---- scripted matrix ----------------------------------------------------------------------
MODES = {
    "never-entered": [],
    "allow_write-without-context": [{"op": "allow_write"}],
    "read-only-context": [{"op": "enter"}],
    "write-context": [{"op": "allow_write"}, {"op": "enter"}],
    "reentered-after-write-context": [{"op": "allow_write"}, {"op": "enter"}, {"op": "exit"}, {"op": "enter"}],
    "after-context-left-by-exception": [{"op": "allow_write"}, {"op": "enter"}, {"op": "exit", "exception": True}, {"op": "enter"}],
    "no-context-after-exception-exit": [{"op": "allow_write"}, {"op": "enter"}, {"op": "exit", "exception": True}],
    "allow_write-inside-read-context": [{"op": "enter"}, {"op": "allow_write"}],
    "no-context-after-write-context": [{"op": "allow_write"}, {"op": "enter"}, {"op": "exit"}],
    "armed-then-reader-then-context": [{"op": "allow_write"}, {"op": "read", "which": "has_events", "k": 0}, {"op": "enter"}],
    "other-object-armed": [{"op": "allow_write", "obj": 1}, {"op": "enter"}],
    "other-object-in-write-context": [{"op": "allow_write", "obj": 1}, {"op": "enter", "obj": 1}, {"op": "enter"}],
    "other-object-left-write-context": [{"op": "allow_write", "obj": 1}, {"op": "enter", "obj": 1}, {"op": "exit", "obj": 1}, {"op": "enter"}],
    "plain-context-after-a-write-session-whose-close-failed": [{"op": "limited-session"}, {"op": "enter"}],
    "no-context-after-a-write-session-whose-close-failed": [{"op": "limited-session"}],
    "double-allow_write-then-two-contexts": [{"op": "allow_write"}, {"op": "allow_write"}, {"op": "enter"}, {"op": "exit"}, {"op": "enter"}],
    "armed-then-unfinished-loop-over-the-file": [{"op": "allow_write"}, {"op": "read", "which": "iter-first", "k": 0}],
    "copied-inside-a-write-context-then-left": [{"op": "allow_write"}, {"op": "enter"}, {"op": "read", "which": "object-copies", "k": 0}, {"op": "exit"}],
    "copied-inside-a-read-context-then-left": [{"op": "enter"}, {"op": "read", "which": "object-copies", "k": 0}, {"op": "exit", "exception": True}],
    "unfinished-loop-then-armed": [{"op": "read", "which": "iter-zip", "k": 1}, {"op": "allow_write"}],
}


def _images():
    ONE = 0x3F800000
    ev = {"t": "events", "format": 1, "startTime": 0, "events": [{"label": "e", "type": 0, "values": [ONE]}]}
    emg = {"t": "emg", "format": 1, "frequency": 1000, "startTime": 0, "nSamples": 2, "signals": [{"label": "s", "channel": 0, "frames": [ONE, ONE]}]}
    mk = lambda spec: {"kind": "spec", "spec": spec, "comment": "c", "cdate": 5, "mdate": 6}  # noqa
    return {"new": {"source": "new"},
            "two-blocks": {"source": "image", "N": 14, "blocks": [mk(ev), mk(emg)], "version": 1},
            "three-slots-two-live": {"source": "image", "N": 3, "blocks": [mk(emg), {"kind": "opaque", "type": 13, "format": 3, "seed": 7, "size": 33, "comment": "", "cdate": 1, "mdate": 2}], "version": 1}}


def enum_matrix(tier):
    for iname, image in _images().items():
        for mname, script in MODES.items():
            for mut in MUTATORS:
                for k in (0, 1) + ((2,) if mut in ("add_block", "set-emg") else ()) + ((3,) if mut not in ("add_block", "remove_block") else ()):
                    yield {"init": image, "ops": list(script) + [{"op": "mutate", "which": mut, "k": k}], "_cell": f"{iname}|{mname}|{mut}"}
            for rd in READERS:
                yield {"init": image, "ops": list(script) + [{"op": "read", "which": rd, "k": 1}], "_cell": f"{iname}|{mname}|reader:{rd}"}


def run(ctx, case):
    run_history(ctx, case, Interp, summarize)


def ops():
    k = st.integers(0, 50)
    obj = st.sampled_from([0, 0, 0, 1])   # mostly one object; sometimes a second Tdf object for the same path
    return st.one_of(
        st.fixed_dictionaries({"op": st.just("allow_write"), "obj": obj}), st.fixed_dictionaries({"op": st.just("enter"), "obj": obj}),
        st.fixed_dictionaries({"op": st.just("enter"), "obj": obj}),
        st.fixed_dictionaries({"op": st.just("exit"), "exception": st.booleans(), "obj": obj}),
        st.fixed_dictionaries({"op": st.just("new-object"), "obj": obj}),
        st.fixed_dictionaries({"op": st.just("mutate"), "which": st.sampled_from(MUTATORS), "k": k, "obj": obj}),
        st.fixed_dictionaries({"op": st.just("mutate"), "which": st.sampled_from(MUTATORS), "k": k, "obj": obj}),
        st.fixed_dictionaries({"op": st.just("read"), "which": st.sampled_from(READERS), "k": k, "obj": obj}),
    )


def machine(ctx, tier):
    return build_machine(ctx, Interp, container.init_images(), ops(), summarize)


SUBS = [
    Sub("matrix", run, kind="enum", enumerate=enum_matrix, shards=(8, 16),
        rule="3 images x 14 scripted access modes (four of them with a second Tdf object for the same path) x (8 mutators x 2 variants + 20 readers); finite, enumerated completely"),
    Sub("interleavings", run, kind="machine", machine=machine, budget=(150, 4000), shards=(4, 16), steps=(25, 50),
        rule="generated images; arbitrary interleavings of allow_write / enter / exit / exit-by-exception / new object / mutators / readers"),
]
TIME_BUDGET = {"quick": 150, "thorough": 1500}

from ..core import optimised_child_sub  # noqa: E402

SUBS.append(optimised_child_sub("C08", ["matrix"], flags=("-W", "error::UserWarning"), name="matrix-with-warnings-as-errors", extra_env={"VERIF_WARNINGS": "error"},
                               what="User / Deprecation / Future warnings are raised as exceptions"))
