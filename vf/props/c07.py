"""C07 - a rejected mutation leaves the file exactly as it was."""
import copy
import os

import numpy as np
from hypothesis import strategies as st

from .. import container, env, reftdf, specs
from ..core import Sub, build_machine, run_history

PROP = {
    "id": "C07",
    "level": "fault_enumeration",
    "technique": "Hypothesis RuleBasedStateMachine reaches file states (table empty / partly filled / full, N in 1..16, images with an unused slot between live blocks); at every 'inject' step EVERY applicable rejection cause x API path (add / replace / setter / remove) x position of the failing element is enumerated, each checked by sha256 of the file before/after and in-memory table vs. independent parse; the history then continues with valid operations under the C03 + C04 + C11 invariants; look-alike block objects are tried on a scratch copy; causes include refusals that depend on process-wide numeric settings and an accepted object spoilt in place and offered again; process-wide settings are compared around every refused call",
    "level_text": ("Fault enumeration over reachable states: the cause list (duplicate type, full table, over-long / non-cp1252 label in the "
                   "first, a middle, the last item, over-long (also by exactly one) / non-cp1252 comment, unsupported format, dates that do not fit the entry, format None, wrong object "
                   "(None, int, str, a track, an array, a dict, an UnusedBlock), absent type for remove / replace, unused slot between live blocks - "
                   "also as the only unused slot) is enumerated completely at each state the generated history "
                   "reaches - not sampled. After each refused call the bytes must be identical and the open object's table must still "
                   "equal the file; afterwards valid operations must behave exactly as the model that never saw the failed call "
                   "predicts (outcomes, well-formedness, accessors)."),
    "level_note": "Trusted: the model's notion of which requests are invalid (each is a documented refusal or an unencodable block). States are sampled by Hypothesis; causes per state are exhaustive. For unsupported formats only blocks whose writer actually refuses are used.",
    "design_ref": "DESIGN.md section 4, C07",
    "rule": ("case = {init image, ops incl. inject steps}; every inject step contributes one evaluation per applicable (cause, path); "
             "non-trivial = a rejection applied to a file that holds >= 1 live block; evidence carries the cause x state-class matrix"),
    "assumptions": [],
}

LABELLED = {"data3D": "tracks", "emg": "signals", "force3D": "tracks", "platCal": "plats", "events": "events", "optical": "channels"}
BAD_TEXT = {"too-long": "L" * 300, "too-long-by-one": None, "not-cp1252": "cafć"}   # None: exactly the field width


def bad_text(kind, width):
    return "L" * width if BAD_TEXT[kind] is None else BAD_TEXT[kind]


def bad_date_block(name, which):
    """a block whose creation / modification date does not fit the 32-bit second field"""
    from datetime import datetime

    blk = specs.build(container_min(name))
    setattr(blk, which, datetime(2040, 1, 1))
    return blk


def no_format_block(name):
    blk = specs.build(container_min(name))
    blk.format = None
    return blk


def labelled_spec(t, n_items, frames=2):
    """a small valid block of type t with n_items labelled items"""
    ONE = 0x3F800000
    if t == "data3D":
        return {"t": t, "format": 1, "nFrames": frames, "frequency": 100, "startTime": 0, "volume": [ONE] * 3, "rot": [ONE] * 9, "trans": [0] * 3,
                "flag": 0, "links": [], "tracks": [{"label": f"m{i}", "frames": [[ONE, ONE, ONE]] * frames} for i in range(n_items)]}
    if t == "emg":
        return {"t": t, "format": 1, "frequency": 1000, "startTime": 0, "nSamples": frames, "_chmode": "auto",
                "signals": [{"label": f"s{i}", "channel": i, "frames": [ONE] * frames} for i in range(n_items)]}
    if t == "force3D":
        return {"t": t, "format": 1, "frequency": 100, "startTime": 0, "nFrames": frames, "volume": [ONE] * 3, "rot": [ONE] * 9, "trans": [0] * 3,
                "tracks": [{"label": f"f{i}", "frames": [[ONE] * 9] * frames} for i in range(n_items)]}
    if t == "platCal":
        return {"t": t, "format": 2, "_chmode": "auto", "plats": [{"channel": i, "label": f"p{i}", "size": [ONE, ONE], "position": [ONE] * 12} for i in range(n_items)]}
    if t == "events":
        return {"t": t, "format": 1, "startTime": 0, "events": [{"label": f"e{i}", "type": 0, "values": [ONE]} for i in range(n_items)]}
    if t == "optical":
        return {"t": t, "format": 1, "channels": [{"index": i, "lens": "l", "type": "t", "name": f"c{i}", "vp": [0, 0, 1, 1]} for i in range(n_items)]}
    if t == "platData":
        return {"t": t, "format": 1, "frequency": 100, "startTime": 0, "nFrames": frames, "_chmode": "auto",
                "plats": [{"channel": i, "frames": [[ONE] * 6] * frames} for i in range(n_items)]}
    if t == "data2D":
        return {"t": t, "format": 2, "nCams": 1, "nFrames": 1, "frequency": 100, "startTime": 0, "flags": 0, "camMap": [0], "cells": [[[[ONE, ONE]]]]}
    raise KeyError(t)


def bad_format_block(t):
    import basictdf.tdfData2D as d2
    import basictdf.tdfData3D as d3
    import basictdf.tdfEMG as em
    import basictdf.tdfForce3D as f3
    import basictdf.tdfForcePlatformsData as pd

    blk = specs.build(labelled_spec(t, 1))
    blk.format = {"data3D": d3.Data3dBlockFormat.byFrame, "emg": em.EMGBlockFormat.byFrame, "force3D": f3.ForceTorque3DBlockFormat.byFrame,
                  "platData": pd.ForcePlatformBlockFormat.byFrameISSFormat, "data2D": d2.Data2DBlockFormat.RTSFormat}[t]
    return blk


def degenerate_bad_format_block(t):
    """the unsupported-format cause on a block WITHOUT items: some writers only look at the format when they meet an item, so this one
    may be stored (nothing is asserted then) - but if the call raises, it has to be a clean refusal"""
    blk = bad_format_block(t)
    empty = specs.build(container_min(t))
    empty.format = blk.format
    return empty


def look_alike(name):
    """a user-defined Block subclass that is NOT the library's class for its type but carries everything the container asks of a
    block (type tag, format, dates, nBytes, _write). Whether the container accepts it is its own business - but if it refuses,
    the refusal must be clean like any other."""
    from basictdf.tdfBlock import Block, BlockType

    real = specs.build(labelled_spec(name, 1) if name in LABELLED or name in ("platData", "data2D") else container_min(name))
    data = specs.lib_write(real)

    class Foreign(Block):
        type = BlockType(reftdf.TYPE_CODE[name])

        def __init__(self):
            super().__init__()
            self.format = real.format
            self.creation_date, self.last_modification_date = real.creation_date, real.last_modification_date

        def __iter__(self):
            return iter(())

        @property
        def nBytes(self):
            return len(data)

        def _write(self, stream):
            stream.write(data)

        @staticmethod
        def _build(stream, format):
            raise NotImplementedError("write-only look-alike")

    return Foreign()


def wrong_objects():
    from basictdf.tdfData3D import MarkerTrack

    from basictdf.tdfBlock import UnusedBlock

    return {"None": None, "int": 7, "str": "block", "track": MarkerTrack("m", np.zeros((2, 3), dtype="<f4")), "ndarray": np.zeros(4), "dict": {"type": 5},
            "UnusedBlock": UnusedBlock()}


class Interp(container.ContainerInterp):
    def __init__(self, ctx, init):
        self.hole = init.get("hole")
        self.matrix = {}
        super().__init__(ctx, init, {"C03", "C04", "C11"} if self.hole is None else set())
        if self.hole is not None:
            self._punch_hole(self.hole)

    def _punch_hole(self, k):
        """rewrite the table so that an unused slot lies between live blocks (data stays compact)"""
        self.leave()
        data = bytearray(self.read_file())
        parsed = reftdf.parse_container(bytes(data))
        lv = reftdf.live(parsed)
        if len(lv) < 2 or len(lv) >= self.N:
            self.hole = None
            self.groups = {"C03", "C04", "C11"}
            self.enter()
            return
        pos = 1 + k % (len(lv) - 1)
        ents = [e for _, e in lv]
        free = {"type": 0, "format": 0, "offset": ents[pos]["offset"], "size": 0, "cdate": 0, "mdate": 0, "adate": 0, "comment": ""}
        new = ents[:pos] + [free] + ents[pos:]
        end = ents[-1]["offset"] + ents[-1]["size"]
        while len(new) < self.N:
            new.append(dict(free, offset=end))
        for i, e in enumerate(new):
            data[64 + 288 * i:64 + 288 * (i + 1)] = reftdf.encode_entry(e)
        with open(self.path, "wb") as f:
            f.write(bytes(data))
        self.enter()

    def state_class(self):
        n = len(self.model)
        return "hole" if self.hole is not None else "empty" if n == 0 else "full" if n == self.N else "partial"

    # ---- one refused call -----------------------------------------------------------------
    def refused(self, cause, path, fn, must_raise=True):
        before = self.read_file()
        ambient = env.ambient_state()
        try:
            fn()
            raised = None
        except Exception as e:  # noqa
            raised = e
        after = self.read_file()
        if raised is not None:
            # "later operations behave as if the failed call had never been made" - also those that depend on process-wide settings
            now = env.ambient_state()
            d = specs.first_diff(now, ambient)
            if d:
                env.restore_ambient(ambient)
                self.ctx.fail(f"{cause}/{path}/interpreter-state-changed-{d[0].strip('/').split('/')[0]}",
                              f"{path} refused ({type(raised).__name__}) because of {cause}; afterwards the process-wide setting {d[0]} is {d[1]!r}, before the call it was "
                              f"{d[2]!r}: every later call in this process runs under it")
        cell = f"{cause}|{path}|{self.state_class()}"
        self.matrix[cell] = self.matrix.get(cell, 0) + 1
        self.ctx.evaluations += 1
        self.ctx.hist["cause:" + cause] += 1
        self.ctx.hist["cell:" + cause.split("-")[0] + "|" + path + "|" + self.state_class()] += 1
        self.ctx.hist["state:" + self.state_class()] += 1
        if self.model:
            self.ctx.nontrivial.add(__import__("vf.core", fromlist=["digest"]).digest([cell, container.sha(before)])[:16])
        if raised is None:
            if must_raise:
                self.ctx.fail(f"{cause}/{path}/not-refused", f"{path} with {cause} did not raise (state: {self.state_class()}, N={self.N}, {len(self.model)} live)")
            elif after != before:
                # a request that is legitimately possible in this state (e.g. replacing the block behind the hole closes the hole):
                # the file moved on and there is no model for it - stop this history here
                from ..core import Abandon

                self.ctx.hist["hole-state-left-by-a-successful-call"] += 1
                raise Abandon("state changed")
            return
        if after != before:
            k = next((i for i in range(min(len(before), len(after))) if before[i] != after[i]), min(len(before), len(after)))
            where = "header" if k < 64 else f"table entry {(k - 64) // 288}" if k < 64 + 288 * self.N else "data area"
            self.ctx.fail(f"{cause}/{path}/file-changed",
                          f"{path} refused ({type(raised).__name__}) because of {cause}, but the file changed: length {len(before)} -> {len(after)}, "
                          f"first difference at byte {k} ({where}); state {self.state_class()}, N={self.N}, {len(self.model)} live")
        # the open object must still describe the file
        parsed = reftdf.parse_container(after)
        mem = [(e.type.value, int(e.format), int(e.offset), int(e.size), e.comment, container.sec_of(e.creation_date), container.sec_of(e.last_modification_date))
               for e in self.tdf.entries]
        disk = [(e["type"], e["format"], e["offset"], e["size"], e["comment"], e["cdate"], e["mdate"]) for e in parsed["entries"]]
        if mem != disk:
            i = next((j for j in range(min(len(mem), len(disk))) if mem[j] != disk[j]), min(len(mem), len(disk)))
            self.ctx.fail(f"{cause}/{path}/memory-table-changed",
                          f"{path} refused because of {cause}; afterwards the open object's table differs from the file at entry {i}: {mem[i] if i < len(mem) else None} vs {disk[i] if i < len(disk) else None}")

    def inject(self, seed):
        from basictdf.tdfBlock import BlockType

        t = self.tdf
        live_codes = self.live_types()
        live_writable = [reftdf.CODE_TYPE[c] for c in live_codes if c in reftdf.CODE_TYPE]
        absent = [x for x in specs.TYPES if reftdf.TYPE_CODE[x] not in live_codes]
        free = self.free_slots() > 0

        def bt(name):
            return BlockType(reftdf.TYPE_CODE[name])

        # 1. duplicate type
        for name in live_writable:
            blk = specs.build(labelled_spec(name, 1) if name in LABELLED or name in ("platData", "data2D") else container_min(name))
            self.refused("duplicate-type", "add_block", lambda: t.add_block(blk))
        # 2. full table
        if not free:
            for name in absent[:3]:
                blk = specs.build(labelled_spec(name, 1) if name != "calib" else container_min(name))
                self.refused("full-table", "add_block", lambda: t.add_block(blk))
                if name in container.SETTERS:
                    self.refused("full-table", "setter", lambda: setattr(t, container.SETTERS[name], blk))
        # 3. unencodable text in a label, by position
        for name in LABELLED:
            present = reftdf.TYPE_CODE[name] in live_codes
            for kind in BAD_TEXT:
                text = bad_text(kind, 32 if name == "optical" else 256)
                for pos, n, idx in (("first", 3, 0), ("middle", 3, 1), ("last", 3, 2), ("only", 1, 0)):
                    spec = labelled_spec(name, n)
                    key = "name" if name == "optical" else "label"
                    spec[LABELLED[name]][idx][key] = text
                    cause = f"label-{kind}-{pos}"
                    if present:
                        self.refused(cause, "replace_block", lambda: t.replace_block(specs.build(spec)))
                        if name in container.SETTERS:
                            self.refused(cause, "setter", lambda: setattr(t, container.SETTERS[name], specs.build(spec)))
                    elif free and self.hole is None:
                        self.refused(cause, "add_block", lambda: t.add_block(specs.build(spec)))
                        if name in container.SETTERS:
                            self.refused(cause, "setter", lambda: setattr(t, container.SETTERS[name], specs.build(spec)))
        # 4. unencodable comment
        for kind in BAD_TEXT:
            text = bad_text(kind, 256)
            for name in (absent[:2] if free and self.hole is None else []):
                blk = specs.build(container_min(name))
                self.refused(f"comment-{kind}", "add_block", lambda: t.add_block(blk, text))
            for name in live_writable[:2]:
                blk = specs.build(container_min(name))
                self.refused(f"comment-{kind}", "replace_block", lambda: t.replace_block(blk, text))
        # 4b. the object of a refused replace (bad comment / bad date) is repaired, edited and then stored by remove + add:
        #     the file must hold what the object encodes to NOW ("as if the failed call had never been made")
        if self.hole is None and live_writable:
            from datetime import datetime

            name = live_writable[seed % len(live_writable)]
            i = self.find(reftdf.TYPE_CODE[name])
            old = self.model[i]
            blk = specs.build(labelled_spec(name, 1) if name in LABELLED or name in ("platData", "data2D") else container_min(name))
            blk.creation_date, blk.last_modification_date = container.dt_of(11), container.dt_of(12)
            variant = seed % 3
            if variant == 0:
                self.refused("comment-too-long-by-one", "replace_block", lambda: t.replace_block(blk, "c" * 256))
            elif variant == 1:
                blk.creation_date = datetime(2040, 1, 1)
                self.refused("date-out-of-range-creation", "replace_block", lambda: t.replace_block(blk))
                blk.creation_date = container.dt_of(11)
            else:
                self.refused("comment-not-cp1252", "replace_block", lambda: t.replace_block(blk, "caf\u0107"))
            # edit the same object, then store it with two valid calls
            if hasattr(blk, "frequency"):
                blk.frequency = 4321
            elif name == "events":
                blk.start_time = 2.5
            before_len = len(self.read_file())
            ok1, _ = self.ctx.must(lambda: t.remove_block(BlockType(reftdf.TYPE_CODE[name])), "reuse-refused-object/remove", "valid remove after a refused replace")
            ok2, _ = self.ctx.must(lambda: t.add_block(blk, "stored later"), "reuse-refused-object/add", "valid add of the (edited) object of an earlier refused replace")
            if ok1 and ok2:
                now = specs.lib_write(blk)
                del self.model[i]
                self.model.append({"type": reftdf.TYPE_CODE[name], "format": blk.format.value, "payload": now, "comment": "stored later", "cdate": 11, "mdate": 12,
                                   "spec": specs.extract(blk)})
                data = self.read_file()
                parsed = reftdf.parse_container(data)
                e = next((e for _, e in reftdf.live(parsed) if e["type"] == reftdf.TYPE_CODE[name]), None)
                self.ctx.evaluations += 1
                self.ctx.hist["cell:reuse-refused-object|remove+add|" + self.state_class()] += 1
                if e is None or data[e["offset"]:e["offset"] + e["size"]] != now:
                    self.ctx.fail("reuse-refused-object/stored-bytes-stale", f"{name}: after a refused replace_block the same block object was edited and stored by remove_block + "
                                                                             f"add_block, but the file does not hold its current encoding "
                                                                             f"({'no entry' if e is None else str(e['size']) + ' bytes stored, ' + str(len(now)) + ' expected'})")
        # 5. unsupported format
        for name in ("data3D", "emg", "force3D", "platData", "data2D"):
            present = reftdf.TYPE_CODE[name] in live_codes
            if present:
                self.refused("unsupported-format", "replace_block", lambda: t.replace_block(bad_format_block(name)))
                if name in container.SETTERS:
                    self.refused("unsupported-format", "setter", lambda: setattr(t, container.SETTERS[name], bad_format_block(name)))
            elif free and self.hole is None:
                self.refused("unsupported-format", "add_block", lambda: t.add_block(bad_format_block(name)))
                if name in container.SETTERS:
                    self.refused("unsupported-format", "setter", lambda: setattr(t, container.SETTERS[name], bad_format_block(name)))
        # 5b. a block whose own metadata cannot be encoded into the table entry
        for cause, make in (("date-out-of-range-creation", lambda n: bad_date_block(n, "creation_date")),
                            ("date-out-of-range-modification", lambda n: bad_date_block(n, "last_modification_date")),
                            ("format-none", no_format_block)):
            for name in live_writable[:3]:
                self.refused(cause, "replace_block", lambda: t.replace_block(make(name)))
                if name in container.SETTERS:
                    self.refused(cause, "setter", lambda: setattr(t, container.SETTERS[name], make(name)))
            for name in (absent[:2] if free and self.hole is None else []):
                self.refused(cause, "add_block", lambda: t.add_block(make(name)))
                if name in container.SETTERS:
                    self.refused(cause, "setter", lambda: setattr(t, container.SETTERS[name], make(name)))
        # 6. wrong object
        for kind, obj in wrong_objects().items():
            self.refused(f"wrong-object-{kind}", "add_block", lambda: t.add_block(obj))
            self.refused(f"wrong-object-{kind}", "replace_block", lambda: t.replace_block(obj))
            if kind != "UnusedBlock":  # remove_block(UnusedBlock()) is not refused (it re-stamps an unused slot); nothing to hold it to
                self.refused(f"wrong-object-{kind}", "remove_block", lambda: t.remove_block(obj))
            self.refused(f"wrong-object-{kind}", "setter", lambda: setattr(t, list(container.SETTERS.values())[seed % 5], obj))
        # 7. absent type
        for name in absent[:4]:
            self.refused("absent-type", "remove_block", lambda: t.remove_block(bt(name)))
            self.refused("absent-type", "replace_block", lambda: t.replace_block(specs.build(container_min(name))))
        for code in [c for c in container.OPAQUE_CODES if c not in live_codes][:2]:
            self.refused("absent-type", "remove_block", lambda: t.remove_block(BlockType(code)))
        # 9. unused slot between live blocks
        if self.hole is not None:
            for name in absent[:4]:
                blk = specs.build(container_min(name))
                self.refused("unused-slot-between-live-blocks", "add_block", lambda: t.add_block(blk), must_raise=False)
                if name in container.SETTERS:
                    self.refused("unused-slot-between-live-blocks", "setter", lambda: setattr(t, container.SETTERS[name], blk), must_raise=False)
            for name in live_writable:
                blk = specs.build(container_min(name))
                self.refused("unused-slot-between-live-blocks", "replace_block", lambda: t.replace_block(blk), must_raise=False)
                if name in container.SETTERS:
                    self.refused("unused-slot-between-live-blocks", "setter", lambda: setattr(t, container.SETTERS[name], blk), must_raise=False)

        # 10. a look-alike block object (own subclass of Block, not the library's class for that type): may be accepted - that is the
        #     container's business - but a refusal has to leave everything alone. Tried on a scratch copy of the current file through a
        #     second object, so that an accepted one does not end this history.
        if self.hole is None and seed % 2 == 0:
            for name in live_writable[:2]:
                self.refused_on_copy("look-alike-block-object", "replace_block", lambda w: w.replace_block(look_alike(name)))
                if name in container.SETTERS:
                    self.refused_on_copy("look-alike-block-object", "setter", lambda w: setattr(w, container.SETTERS[name], look_alike(name)))
            for name in (absent[:1] if free else []):
                self.refused_on_copy("look-alike-block-object", "add_block", lambda w: w.add_block(look_alike(name)))
            for name in ("data3D", "emg", "force3D", "platData"):
                present = reftdf.TYPE_CODE[name] in live_codes
                if present:
                    self.refused_on_copy("unsupported-format-without-items", "replace_block", lambda w: w.replace_block(degenerate_bad_format_block(name)))
                    if name in container.SETTERS:
                        self.refused_on_copy("unsupported-format-without-items", "setter", lambda w: setattr(w, container.SETTERS[name], degenerate_bad_format_block(name)))
                elif free:
                    self.refused_on_copy("unsupported-format-without-items", "add_block", lambda w: w.add_block(degenerate_bad_format_block(name)))
                    if name in container.SETTERS:
                        self.refused_on_copy("unsupported-format-without-items", "setter", lambda w: setattr(w, container.SETTERS[name], degenerate_bad_format_block(name)))
            # 10b. a convenience setter handed a valid block of ANOTHER type that is also in the file: stored or refused - but cleanly
            for sname in [n for n in live_writable if n in container.SETTERS][:2]:
                for other in [n for n in live_writable if n != sname][:2]:
                    self.refused_on_copy("setter-given-another-type", "setter",
                                         lambda w, sname=sname, other=other: setattr(w, container.SETTERS[sname], specs.build(container_min(other))))
            # 11. a write session in which every call was refused: closing it leaves the file as it was when the session began
            self.session_of_refusals(seed)
        if self.hole is None and os.path.getsize(self.path) <= 256 * 1024:
            # (both work on scratch copies of the current file, dozens per batch: only for files of moderate size - the 2 MB capture is left out)
            # 12. a block that cannot be encoded BECAUSE OF A PROCESS-WIDE SETTING: a finite float64 sample beyond the float32 range while numpy's
            #     overflow handling is 'raise' (np.errstate(over="raise"), or warnings turned into errors): refused - cleanly
            self.strict_numeric_refusals(seed)
            # 13. the very object of an ACCEPTED call, spoilt in place afterwards (label too long / not cp1252 / format unsupported - none of which
            #     changes its size) and offered again through the replace path: refused - cleanly (the block stored earlier stays)
            self.spoilt_after_accept(seed)
        elif os.path.getsize(self.path) > 256 * 1024:
            import gc

            gc.collect()    # hundreds of refused calls each kept two images of a multi-megabyte file alive through their tracebacks

    def _scratch(self, name):
        import shutil

        cp = os.path.join(self.dir, name)
        shutil.copyfile(self.path, cp)
        return cp

    def strict_numeric_refusals(self, seed):
        import warnings

        from basictdf import Tdf

        from .c14 import FIELDS, _ramp, _rle_objects

        live_codes = self.live_types()
        free = self.free_slots() > 0
        for name in ("data3D", "force3D", "platData", "emg"):
            present = reftdf.TYPE_CODE[name] in live_codes
            if not present and not free:
                continue
            fields = {}
            for k, (fname, w) in enumerate(FIELDS[name]):
                a = _ramp(2, w, start=3.0 + k).astype("<f8")
                if k == seed % len(FIELDS[name]):
                    a.flat[-1] = 1e39          # finite, beyond float32
                fields[fname] = a
            for strict in ("errstate-raise", "warnings-as-errors"):
                paths = (["replace_block"] + (["setter"] if name in container.SETTERS else [])) if present else (["add_block"] + (["setter"] if name in container.SETTERS else []))
                for path in paths:
                    cp = self._scratch("scratch-strict.tdf")
                    before = open(cp, "rb").read()
                    raised = None
                    t2 = Tdf(cp)
                    t2.allow_write()
                    t2.__enter__()
                    try:
                        blk = _rle_objects(name, 2, [fields])
                        with warnings.catch_warnings():
                            if strict == "warnings-as-errors":
                                warnings.simplefilter("error")
                            with np.errstate(over="raise" if strict == "errstate-raise" else "warn"):
                                try:
                                    if path == "setter":
                                        setattr(t2, container.SETTERS[name], blk)
                                    elif path == "replace_block":
                                        t2.replace_block(blk)
                                    else:
                                        t2.add_block(blk)
                                except Exception as e:  # noqa
                                    raised = e
                                    e.__traceback__ = None      # (no cycle through this frame: the file images below are released at once)
                    finally:
                        try:
                            t2.__exit__(None, None, None)
                        except Exception:  # noqa
                            pass
                    after = open(cp, "rb").read()
                    os.unlink(cp)
                    cause = f"unencodable-under-{strict}"
                    self.ctx.evaluations += 1
                    self.ctx.hist["cause:" + cause] += 1
                    self.ctx.hist[f"cell:{cause}|{path}|{self.state_class()}"] += 1
                    self.ctx.hist[f"strict-numeric:{'refused' if raised is not None else 'accepted'}"] += 1
                    if raised is not None and after != before:
                        k = next((i for i in range(min(len(before), len(after))) if before[i] != after[i]), min(len(before), len(after)))
                        self.ctx.fail(f"{cause}/{path}/file-changed", f"{path} of a {name} block holding 1e39 (float64) refused ({type(raised).__name__}) with numeric overflow "
                                                                      f"made fatal ({strict}), but the file changed: length {len(before)} -> {len(after)}, first difference at byte {k}; "
                                                                      f"state {self.state_class()}, N={self.N}, {len(self.model)} live")

    def spoilt_after_accept(self, seed):
        from basictdf import Tdf

        live_codes = self.live_types()
        free = self.free_slots() > 0
        for name in LABELLED:
            present = reftdf.TYPE_CODE[name] in live_codes
            if not present and not free:
                continue
            for how in ("label-too-long", "label-not-cp1252") + (("format-unsupported",) if name in ("data3D", "emg", "force3D") else ()):
                for first, second in (("setter", "setter"), ("add-or-replace", "replace_block"), ("setter", "replace_block")):
                    if "setter" in (first, second) and name not in container.SETTERS:
                        continue
                    cp = self._scratch("scratch-spoilt.tdf")
                    t2 = Tdf(cp)
                    t2.allow_write()
                    t2.__enter__()
                    raised, accepted, before = None, False, None
                    try:
                        blk = specs.build(labelled_spec(name, 2))
                        try:
                            if first == "setter":
                                setattr(t2, container.SETTERS[name], blk)
                            elif present:
                                t2.replace_block(blk)
                            else:
                                t2.add_block(blk)
                            accepted = True
                        except Exception:  # noqa - C11's subject
                            pass
                        if accepted:
                            t2.handler.flush()
                            before = open(cp, "rb").read()
                            items = [x[1] if isinstance(x, tuple) else x for x in list(blk)] if name != "optical" else list(blk.channels)
                            target = items[seed % len(items)]
                            attr = "camera_name" if name == "optical" else "label"
                            if how == "label-too-long":
                                setattr(target, attr, "x" * (32 if name == "optical" else 256))
                            elif how == "label-not-cp1252":
                                setattr(target, attr, "caf\u0107")
                            else:
                                blk.format = type(blk.format)(max(f.value for f in type(blk.format)))
                                if blk.format.value == labelled_spec(name, 2)["format"]:
                                    accepted = False
                        if accepted:
                            try:
                                if second == "setter":
                                    setattr(t2, container.SETTERS[name], blk)
                                else:
                                    t2.replace_block(blk)
                            except Exception as e:  # noqa
                                raised = e
                                e.__traceback__ = None
                            t2.handler.flush()
                    finally:
                        try:
                            t2.__exit__(None, None, None)
                        except Exception:  # noqa
                            pass
                    after = open(cp, "rb").read()
                    os.unlink(cp)
                    if not accepted:
                        continue
                    cause = f"accepted-object-spoilt-{how}"
                    self.ctx.evaluations += 1
                    self.ctx.hist["cause:" + cause] += 1
                    self.ctx.hist[f"cell:{cause}|{second}|{self.state_class()}"] += 1
                    if raised is None:
                        if how != "format-unsupported":
                            self.ctx.fail(f"{cause}/{second}/not-refused", f"{name}: a block stored by {first}, then given a {how.replace('-', ' ')} in place and offered again through "
                                                                           f"{second}, was not refused")
                    elif after != before:
                        k = next((i for i in range(min(len(before), len(after))) if before[i] != after[i]), min(len(before), len(after)))
                        self.ctx.fail(f"{cause}/{second}/file-changed", f"{name}: the very object of an accepted {first} was spoilt in place ({how}) and offered again through {second}: "
                                                                        f"refused ({type(raised).__name__}), but the file changed: length {len(before)} -> {len(after)}, first "
                                                                        f"difference at byte {k} (the block stored earlier is "
                                                                        f"{'gone' if reftdf.TYPE_CODE[name] not in [e['type'] for _, e in reftdf.live(reftdf.parse_container(after))] else 'still listed'})")

    def session_of_refusals(self, seed):
        import shutil

        from basictdf import Tdf
        from basictdf.tdfBlock import BlockType

        cp = os.path.join(self.dir, "scratch-session.tdf")
        shutil.copyfile(self.path, cp)
        before = open(cp, "rb").read()
        live_codes = self.live_types()
        t2 = Tdf(cp)
        calls = 0
        t2.allow_write()
        t2.__enter__()
        try:
            attempts = [lambda: t2.add_block(None), lambda: t2.replace_block("block"), lambda: t2.remove_block(BlockType(next(c for c in range(1, 17) if c not in live_codes)))]
            for name in [reftdf.CODE_TYPE[c] for c in live_codes if c in reftdf.CODE_TYPE][:2]:
                attempts.append(lambda name=name: t2.add_block(specs.build(container_min(name))))   # duplicate type
            for k in range(1 + seed % len(attempts)):
                try:
                    attempts[(seed + k) % len(attempts)]()
                except Exception:  # noqa
                    calls += 1
        finally:
            if seed % 3 == 0:
                t2.__exit__(KeyError, KeyError("caller"), None)
            else:
                t2.__exit__(None, None, None)
        after = open(cp, "rb").read()
        os.unlink(cp)
        self.ctx.evaluations += 1
        self.ctx.hist["cell:session-of-refusals|close|" + self.state_class()] += 1
        if calls and after != before:
            k = next((i for i in range(min(len(before), len(after))) if before[i] != after[i]), min(len(before), len(after)))
            self.ctx.fail("session-of-refusals/file-changed-at-close", f"a write session in which all {calls} calls were refused changed the file when it was closed "
                                                                       f"(first difference at byte {k}, {'header' if k < 64 else 'table / data'}); state {self.state_class()}")

    def refused_on_copy(self, cause, path, fn):
        import shutil

        from basictdf import Tdf

        cp = os.path.join(self.dir, "scratch-copy.tdf")
        shutil.copyfile(self.path, cp)
        before = open(cp, "rb").read()
        t2 = Tdf(cp)
        raised = None
        t2.allow_write()
        t2.__enter__()
        try:
            try:
                fn(t2)
            except Exception as e:  # noqa
                raised = e
        finally:
            t2.__exit__(None, None, None)
        after = open(cp, "rb").read()
        os.unlink(cp)
        self.ctx.evaluations += 1
        self.ctx.hist["cause:" + cause] += 1
        self.ctx.hist[f"cell:{cause.split('-')[0]}|{path}|{self.state_class()}"] += 1
        self.ctx.hist["look-alike:" + ("refused" if raised is not None else "accepted")] += 1
        if raised is not None and after != before:
            k = next((i for i in range(min(len(before), len(after))) if before[i] != after[i]), min(len(before), len(after)))
            self.ctx.fail(f"{cause}/{path}/file-changed", f"{path} refused ({type(raised).__name__}: {str(raised)[:80]}) because of {cause}, but the file changed: "
                                                          f"length {len(before)} -> {len(after)}, first difference at byte {k}; state {self.state_class()}, N={self.N}, {len(self.model)} live")

    def _apply(self, op):
        if op["op"] == "inject":
            self.inject(op.get("seed", 0))
            if self.hole is None:
                self.observe("after-refusals")
            return
        if self.hole is not None:
            return  # no model for files with holes: only refusals are exercised there
        super()._apply(op)

    def finish(self):
        if self.hole is None:
            super().finish()
        else:
            self.leave()


def container_min(name):
    from .c14 import _minimal

    return _minimal(name)


def summarize(it, case):
    labels = [f"N={it.N}", "hole" if it.hole is not None else "compact"] + [k for k, v in it.stats.items() if v and k in ("table-filled", "removes", "adds", "replaces", "cycles")]
    return bool(it.matrix) and any("|empty" not in c for c in it.matrix), labels


def inits():
    @st.composite
    def s(draw):
        if draw(st.integers(0, 3)) == 0:
            # a file with an unused slot between live blocks: needs >= 2 live blocks and a spare slot
            init = copy.deepcopy(draw(container.init_images(allow_new=False, min_live=3)))
            if len(init["blocks"]) >= 2:
                # half of the time the hole is the ONLY unused slot (nothing unused after the last live block)
                spare = draw(st.sampled_from([1, 1, 2, 3]))
                init["N"] = len(init["blocks"]) + spare if draw(st.booleans()) else max(init["N"], len(init["blocks"]) + spare)
                init["hole"] = draw(st.integers(0, 10))
            return init
        return copy.deepcopy(draw(container.init_images()))

    return s()


def ops():
    inject = st.fixed_dictionaries({"op": st.just("inject"), "seed": st.integers(0, 100)})
    return st.one_of(inject, container.history_ops(refusals=False), container.history_ops(refusals=False))


def machine(ctx, tier):
    return build_machine(ctx, Interp, inits(), ops(), summarize)


def run(ctx, case):
    run_history(ctx, case, Interp, summarize)


SUBS = [Sub("fault-histories", run, kind="machine", machine=machine, budget=(60, 2000), shards=(4, 16), steps=(12, 30),
            rule="histories reaching states; at every inject step all applicable (cause x path x position) refusals are enumerated")]
def enum_holes(tier):
    """every geometry of ONE unused slot between live blocks for 2..5 live blocks (all of types the library can write, in several orders),
    with and without spare slots behind the last live block; at each state every applicable refusal is injected once"""
    import itertools

    def blk(kind):
        return {"kind": "spec", "spec": labelled_spec(kind, 1) if kind in LABELLED or kind in ("platData", "data2D") else container_min(kind), "comment": kind, "cdate": 1, "mdate": 2, "adate": 3}

    kinds = ["events", "emg", "data3D", "platCal", "optical"]
    for L in (2, 3, 4, 5):
        for order in list(itertools.permutations(kinds[:L]))[:6]:
            for hole in range(0, L - 1):
                for spare in (0, 1, 3):
                    yield {"init": {"source": "image", "N": L + 1 + spare, "blocks": [blk(k) for k in order], "version": 1, "dates": [0, 0, 0], "fill": ["zero", 0], "hole": hole},
                           "ops": [{"op": "inject", "seed": hole + spare}], "_script": f"hole|live={L}|at={hole}|spare={spare}|{'-'.join(order)}"}


SUBS.append(Sub("hole-geometries", run, kind="enum", enumerate=enum_holes, shards=(8, 16),
                rule="files with one unused slot between live blocks: 2..5 live blocks x up to 6 orders x every hole position x 0 / 1 / 3 spare slots; every applicable refusal "
                     "(all causes x add / replace / setter / remove) injected at each; finite, enumerated", nontrivial_required=False))
TIME_BUDGET = {"quick": 150, "thorough": 1500}
