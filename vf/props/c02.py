"""C02 - a block's declared size = bytes written = bytes consumed."""
import io
import os

from hypothesis import strategies as st

from .. import codec, env, reftdf, specs
from ..core import Sub

PROP = {
    "id": "C02",
    "level": "exploration",
    "technique": "Hypothesis-generated block specs and nested items: nBytes vs len(encoding) vs bytes consumed by decode (sentinel tail) vs size computed by the independent reference encoder; BTS capture entries; container entry sizes; enumerated sub-checks: counts on 2^k boundaries, gaps given as numpy MaskedArrays, files with undecodable blocks read in every order inside one context",
    "level_text": ("Exploration: three-way agreement (declared size, bytes written, bytes consumed) plus a fourth independent opinion "
                   "(reftdf's size for the same spec) over generated blocks of all nine types, over every nested item class on its "
                   "own, over the eight blocks of the BTS capture against the jump-table sizes, and over files written by add_block."),
    "level_note": "Trusted: reftdf's layout (validated against the BTS capture). Blocks whose arrays are inconsistent with their own header (e.g. Data2D.nCams != data.shape[1]) are outside the domain of valid blocks and not generated.",
    "design_ref": "DESIGN.md section 3, C02",
    "rule": ("case = {spec, hints}; non-trivial = the size formula is exercised beyond its constant term (>= 2 segments, links, "
             ">= 1 channel-map entry, a None cell next to a non-empty one, BTS records, >= 1 item); distinct by sha1 of the case"),
    "assumptions": ["a 16-byte sentinel follows the block in the stream; decode must stop exactly before it"],
}

SENTINEL = bytes(range(0xA0, 0xB0))


def check_sizes(ctx, t, what, obj, write, build, ref_len=None):
    """declared == written == consumed (and == reference length when given)"""
    ok, w = ctx.must(write, f"{what}/encode", f"encoding {what}")
    if not ok:
        return None
    ok, nb = ctx.must(lambda: obj.nBytes, f"{what}/nBytes", f"nBytes of {what}")
    if ok and int(nb) != len(w):
        ctx.fail(f"{what}/nBytes-vs-written", f"{what}: nBytes says {int(nb)}, encoding wrote {len(w)} bytes")
    if ref_len is not None and ref_len != len(w):
        ctx.fail(f"{what}/written-vs-reference", f"{what}: wrote {len(w)} bytes, the layout needs {ref_len}")
    ok, res = ctx.must(lambda: specs.consume(build, w, SENTINEL), f"{what}/decode", f"decoding {what}")
    if ok and res[1] != len(w):
        ctx.fail(f"{what}/consumed-vs-written", f"{what}: decode consumed {res[1]} of {len(w)} bytes written")
    return w


def run_block(ctx, case):
    spec, hints = specs.expand_case(case)
    t = spec["t"]
    ok, blk = ctx.must(lambda: specs.build(spec, hints), f"{t}/build", f"constructing a valid {t} block")
    if ok:
        ref = reftdf.encode(spec)
        cls = specs.lib_class(t)
        check_sizes(ctx, t, t, blk, lambda: specs.lib_write(blk), lambda s: cls._build(s, spec["format"]), len(ref))
    ctx.case(case, codec.nontrivial_size(spec), labels=codec.class_labels(spec, hints))


def _wr(fn):
    def f():
        b = io.BytesIO()
        fn(b)
        return b.getvalue()

    return f


def run_items(ctx, case):
    """every nested item of a generated block, on its own"""
    spec, hints = case["spec"], case.get("hints")
    t = spec["t"]
    ok, blk = ctx.must(lambda: specs.build(spec, hints), f"{t}/build", f"constructing a valid {t} block")
    n = 0
    if ok:
        from basictdf.tdfTypes import CameraViewPort

        def vp_check(vp):
            w = vp.write()
            if CameraViewPort.nBytes != len(w):
                ctx.fail("CameraViewPort/nBytes-vs-written", f"viewport nBytes {CameraViewPort.nBytes} vs {len(w)} written")
            s = io.BytesIO(w + SENTINEL)
            CameraViewPort.bread(s)
            if s.tell() != len(w):
                ctx.fail("CameraViewPort/consumed-vs-written", f"viewport consumed {s.tell()} of {len(w)}")

        if t == "data3D":
            from basictdf.tdfData3D import MarkerTrack
            for tr in blk:
                check_sizes(ctx, t, "MarkerTrack", tr, _wr(tr._write), lambda s: MarkerTrack._build(s, spec["nFrames"])); n += 1
        elif t == "emg":
            from basictdf.tdfEMG import EMGTrack
            for tr in blk:
                check_sizes(ctx, t, "EMGTrack", tr, _wr(tr._write), lambda s: EMGTrack._build(s, spec["nSamples"])); n += 1
        elif t == "force3D":
            from basictdf.tdfForce3D import ForceTorqueTrack
            for tr in blk:
                check_sizes(ctx, t, "ForceTorqueTrack", tr, _wr(tr._write), lambda s: ForceTorqueTrack._build(s, spec["nFrames"])); n += 1
        elif t == "platData":
            from basictdf.tdfForcePlatformsData import ForcePlatformBlockFormat, ForcePlatformData
            F = ForcePlatformBlockFormat.byTrackISSFormat
            for _, p in blk:
                check_sizes(ctx, t, "ForcePlatformData", p, _wr(lambda b, p=p: p._write(b, F)), lambda s: ForcePlatformData._build(s, F, spec["nFrames"])); n += 1
        elif t == "platCal":
            from basictdf.tdfForcePlatformsCalibration import ForcePlatformInfo
            for _, p in blk.platforms:
                check_sizes(ctx, t, "ForcePlatformInfo", p, _wr(p._write), lambda s: ForcePlatformInfo._build(s)); n += 1
        elif t == "data2D":
            from basictdf.tdfData2D import Data2DPCK
            pck = blk._data
            check_sizes(ctx, t, "Data2DPCK", pck, _wr(pck._write), lambda s: Data2DPCK._build(s, spec["nFrames"], spec["nCams"])); n += 1
        elif t == "calib":
            from basictdf.tdfCalibrationData import BTSCameraData, SeelabCameraData
            C = SeelabCameraData if spec["format"] == 1 else BTSCameraData
            for c in blk.cam_data:
                check_sizes(ctx, t, C.__name__, c, _wr(c._write), lambda s: C._build(s)); n += 1
                vp_check(c.view_port)
        elif t == "optical":
            from basictdf.tdfOpticalSystem import OpticalChannelData
            for c in blk:
                check_sizes(ctx, t, "OpticalChannelData", c, _wr(c._write), lambda s: OpticalChannelData._build(s)); n += 1
                vp_check(c.camera_viewport)
        elif t == "events":
            from basictdf.tdfEvents import Event
            for e in blk:
                check_sizes(ctx, t, "Event", e, _wr(e._write), lambda s: Event._build(s)); n += 1
    ctx.case(case, n > 0 and codec.nontrivial_size(spec), labels=codec.class_labels(spec, hints))


# ---------------------------------------------------------------------------------------
def enum_capture(tier):
    for i in range(8):
        yield {"slot": i}


_capture = {}


def run_capture(ctx, case):
    """BTS-written file: declared size of the decoded block == size in the jump table == bytes consumed"""
    from basictdf import Tdf

    if "data" not in _capture:
        if not os.path.exists(env.CAPTURE):
            raise env.HarnessError("reference capture missing")
        _capture["data"] = open(env.CAPTURE, "rb").read()
        _capture["parsed"] = reftdf.parse_container(_capture["data"])
    data, parsed = _capture["data"], _capture["parsed"]
    i = case["slot"]
    e = parsed["entries"][i]
    t = reftdf.CODE_TYPE[e["type"]]
    _, ref_used, _, _ = reftdf.decode(t, e["format"], data, e["offset"])
    if ref_used != e["size"]:
        raise env.HarnessError(f"reference decoder consumed {ref_used}, table says {e['size']}")
    ok, blk = ctx.must(lambda: Tdf(env.CAPTURE).get_block(i), f"capture/{t}/get_block", f"reading slot {i} ({t}) of the BTS capture")
    if ok:
        ok, nb = ctx.must(lambda: blk.nBytes, f"capture/{t}/nBytes", f"nBytes of capture block {t}")
        if ok and int(nb) != e["size"]:
            ctx.fail(f"capture/{t}/nBytes-vs-table", f"capture slot {i} ({t}): decoded block declares {int(nb)} bytes, jump table says {e['size']}")
        stream = io.BytesIO(data)
        stream.seek(e["offset"])
        ok, _ = ctx.must(lambda: specs.lib_class(t)._build(stream, e["format"]), f"capture/{t}/decode", f"decoding capture block {t}")
        if ok and stream.tell() - e["offset"] != e["size"]:
            ctx.fail(f"capture/{t}/consumed-vs-table", f"capture slot {i} ({t}): decode consumed {stream.tell() - e['offset']}, table says {e['size']}")
        ok, w = ctx.must(lambda: specs.lib_write(blk), f"capture/{t}/encode", f"re-encoding capture block {t}")
        if ok and len(w) != e["size"]:
            ctx.fail(f"capture/{t}/written-vs-table", f"capture slot {i} ({t}): re-encoding writes {len(w)} bytes, table says {e['size']}")
    ctx.case(case, True, labels=(f"capture:{t}",))


# ---------------------------------------------------------------------------------------
def container_strategy(tier):
    @st.composite
    def cases(draw):
        types = draw(st.lists(st.sampled_from(specs.TYPES), min_size=1, max_size=4, unique=True))
        return {"blocks": [{"spec": draw(specs.SPEC[t](tier)), "hints": draw(specs.HINTS)} for t in types]}

    return cases()


def run_container(ctx, case):
    """the place where a wrong size corrupts files: entry.size must equal the bytes between this
    block's offset and the next block / EOF"""
    from basictdf import Tdf

    d = env.fresh_dir()
    try:
        path = os.path.join(d, "f.tdf")
        written = []
        tdf = Tdf.new(path)
        with tdf.allow_write() as f:
            for bc in case["blocks"]:
                blk = specs.build(bc["spec"], bc["hints"])
                w = specs.lib_write(blk)
                ok, _ = ctx.must(lambda: f.add_block(blk), "container/add_block", f"adding a valid {bc['spec']['t']} block to a new file")
                if ok:
                    written.append((bc["spec"]["t"], w))
        data = open(path, "rb").read()
        parsed = reftdf.parse_container(data)
        lv = reftdf.live(parsed)
        if len(lv) == len(written):
            pos = reftdf.HEADER_SIZE + reftdf.ENTRY_SIZE * parsed["nEntries"]
            for (i, e), (t, w) in zip(lv, written):
                nxt = lv[lv.index((i, e)) + 1][1]["offset"] if lv.index((i, e)) + 1 < len(lv) else len(data)
                if e["size"] != len(w):
                    ctx.fail(f"container/{t}/entry-size-vs-written", f"{t}: entry size {e['size']} but the block encodes to {len(w)} bytes")
                elif nxt - e["offset"] != e["size"]:
                    ctx.fail(f"container/{t}/entry-size-vs-gap", f"{t}: entry size {e['size']} but next block/EOF is {nxt - e['offset']} bytes away")
                elif data[e["offset"]:e["offset"] + e["size"]] != w:
                    ctx.fail(f"container/{t}/payload", f"{t}: stored bytes differ from the block's encoding")
                pos += e["size"]
    finally:
        env.rmdir(d)
    ctx.case(case, len(case["blocks"]) >= 2 and any(codec.nontrivial_size(b["spec"]) for b in case["blocks"]),
             labels=[f"blocks={len(case['blocks'])}"] + [b["spec"]["t"] for b in case["blocks"]])


def enum_container_big(tier):
    """files in which many MiB of block data lie behind a block that is then removed / replaced: every entry's size must still be the
    number of bytes its block occupies and decodes from (a tail that is moved in pieces shows at the piece boundaries)"""
    for mib in (1, 4, 17):
        for action in ("remove-first", "replace-first"):
            yield {"mib": mib, "action": action}


def run_container_big(ctx, case):
    from basictdf import Tdf
    from basictdf.tdfBlock import BlockType

    from .c07 import labelled_spec

    n = case["mib"] * (1 << 20) // 4 + 1000
    big = {"t": "emg", "format": 1, "frequency": 1000, "startTime": 0, "nSamples": n, "_chmode": "explicit",
           "signals": [{"label": "long recording", "channel": 0, "frames": [0x3F800000 + (j & 0xFFFF) for j in range(n)]}]}
    specs_ = [labelled_spec("events", 2), big, labelled_spec("optical", 2), labelled_spec("platCal", 1)]
    d = env.fresh_dir()
    try:
        path = os.path.join(d, "big.tdf")
        enc = {}
        with Tdf.new(path).allow_write() as f:
            for sp in specs_:
                blk = specs.build(sp)
                enc[sp["t"]] = specs.lib_write(blk, sink="fresh")
                f.add_block(blk)
        with Tdf(path).allow_write() as f:
            if case["action"] == "remove-first":
                f.remove_block(BlockType(reftdf.TYPE_CODE["events"]))
                enc.pop("events")
            else:
                nb = specs.build(labelled_spec("events", 3))
                enc["events"] = specs.lib_write(nb, sink="fresh")
                f.replace_block(nb)
        data = open(path, "rb").read()
        parsed = reftdf.parse_container(data)
        lv = reftdf.live(parsed)
        for k, (i, e) in enumerate(lv):
            t = reftdf.CODE_TYPE[e["type"]]
            nxt = lv[k + 1][1]["offset"] if k + 1 < len(lv) else len(data)
            if e["size"] != len(enc[t]) or nxt - e["offset"] != e["size"]:
                ctx.fail(f"container-big/{t}/entry-size", f"{t}: entry size {e['size']}, the block encodes to {len(enc[t])} bytes, the next block / EOF is {nxt - e['offset']} bytes away")
            elif data[e["offset"]:e["offset"] + e["size"]] != enc[t]:
                ctx.fail(f"container-big/{t}/stored-bytes", f"{t}: after {case['action']} with {case['mib']} MiB behind the touched block, the bytes at this entry's offset are not "
                                                            f"the block's encoding")
            if t != "emg":
                ok, res = ctx.must(lambda: specs.lib_decode(t, e["format"], data[e["offset"]:e["offset"] + e["size"]]), f"container-big/{t}/decode", f"decoding the stored {t} block")
                if ok and res[1] != e["size"]:
                    ctx.fail(f"container-big/{t}/consumed", f"{t}: decode consumed {res[1]} of the {e['size']} bytes the entry declares")
    finally:
        env.rmdir(d)
    ctx.case(case, True, labels=[f"behind={case['mib']}MiB", case["action"]])


def edits_strategy(tier):
    types = ["emg", "platCal", "data3D", "force3D", "events", "optical", "platData", "data2D", "events"]
    return st.sampled_from(types).flatmap(lambda t: st.fixed_dictionaries({
        "spec": specs.SPEC[t](tier, 2), "hints": specs.HINTS,
        "edits": st.lists(st.tuples(st.sampled_from(["remove", "remove", "add", "inplace", "assign-refused", "assign-iter", "via-shallow-copy"]), st.integers(0, 50)).map(list), min_size=1, max_size=5)}))


def run_edits(ctx, case):
    """the declared size must keep following the encoding while items are removed and added through the public interface"""
    import numpy as np

    spec, hints = case["spec"], case.get("hints")
    if hints:
        hints = dict(hints, seq="list", readonly=False)     # this sub-check edits the block's containers and arrays in place: lists, writable arrays
    t = spec["t"]
    ok, blk = ctx.must(lambda: specs.build(spec, hints), f"{t}/build", f"constructing a valid {t} block")
    done = 0
    if ok:
        cls = specs.lib_class(t)
        fresh = specs.build(spec, hints)  # a second, independent copy to take new items from
        check_sizes(ctx, t, f"{t}-before-edits", blk, lambda: specs.lib_write(blk), lambda s_: cls._build(s_, spec["format"]))  # sizes are read once before editing
        twin = None
        for kind, k in case["edits"]:
            try:
                if kind == "via-shallow-copy":
                    # copy.copy(block) shares the block's containers with it: an item removed or added through the copy is gone from / present in
                    # both, and both must keep telling the truth about their size
                    import copy as _copy

                    twin = _copy.copy(blk)
                    tgt = twin
                    if t == "emg" and list(tgt):
                        tgt.removeSignal(list(tgt)[k % len(list(tgt))].label)
                    elif t == "platCal" and len(tgt):
                        tgt.remove_platform(k % len(tgt))
                    elif t in ("data3D", "force3D") and tgt.tracks:
                        del tgt.tracks[k % len(tgt.tracks)]
                    elif t == "events" and tgt.events:
                        del tgt.events[k % len(tgt.events)]
                    elif t == "optical" and tgt.channels:
                        del tgt.channels[k % len(tgt.channels)]
                    else:
                        twin = None
                        continue
                    done += 1
                    check_sizes(ctx, t, f"{t}-shallow-copy-after-edit", twin, lambda: specs.lib_write(twin), lambda s_: cls._build(s_, spec["format"]))
                    check_sizes(ctx, t, f"{t}-original-after-edit-through-shallow-copy", blk, lambda: specs.lib_write(blk), lambda s_: cls._build(s_, spec["format"]))
                    continue
                if kind == "inplace":
                    # content changed through public attributes of the block / its items, sizes re-read afterwards
                    if t == "data2D":
                        nf, nc = blk.data.shape
                        if not nf or not nc:
                            continue
                        pts = np.full((1 + k % 5, 2), float(k), dtype=["<f4", "<f8"][k % 2])
                        blk.data[k % nf, (k // 3) % nc] = pts if k % 4 else None
                    elif t == "events":
                        evs = [e for e in blk.events if e.type.value == 1]
                        if not evs:
                            continue
                        e = evs[k % len(evs)]
                        e.values = np.append(e.values, float(k)) if k % 2 else np.array(list(e.values) + [float(k)], dtype="<f4")
                    elif t in ("data3D", "emg"):
                        its = list(blk)
                        if not its:
                            continue
                        it = its[k % len(its)]
                        it.data = it.data.astype("<f8") if k % 2 else np.ascontiguousarray(it.data[::-1])[::-1]
                        if k % 3 == 0 and len(it.data) > 1:
                            it.data[0] = np.nan if not np.isnan(np.asarray(it.data[0]).ravel()[0]) else 1.0
                    else:
                        continue
                elif kind in ("assign-refused", "assign-iter"):
                    # whole-list assignment: with an invalid element behind k valid ones (must be refused - whatever it leaves behind has to be
                    # consistent), or as a one-shot iterator of valid elements (zip / generator)
                    if t not in ("data3D", "force3D", "platCal", "platData"):
                        continue
                    src = list(fresh) if t not in ("platCal", "platData") else [p for _, p in (fresh.platforms if t == "platCal" else list(fresh))]
                    if not src:
                        continue
                    seq = [src[(k + j) % len(src)] for j in range(1 + k % 3)]
                    if t == "platCal":
                        used = {int(c) for c, _ in blk.platforms}
                        free = [c for c in range(200) if c not in used][:len(seq) + 1]
                        pairs = list(zip(free, seq))
                        arg = pairs + [(free[-1], "junk")] if kind == "assign-refused" else zip(free, seq)
                    else:
                        arg = seq + ["junk"] if kind == "assign-refused" else (x for x in seq)
                    try:
                        if t in ("data3D", "force3D"):
                            blk.tracks = arg
                        else:
                            blk.platforms = arg
                        ctx.label(f"{kind}:accepted")
                    except Exception:  # noqa - a refusal is fine (C16 / C15 judge it); the sizes afterwards are what counts here
                        ctx.label(f"{kind}:raised")
                elif kind == "remove":
                    if t == "emg":
                        its = list(blk)
                        if not its:
                            continue
                        blk.removeSignal(its[k % len(its)].label)
                    elif t == "platCal":
                        if not len(blk):
                            continue
                        blk.remove_platform(k % len(blk))
                    elif t in ("data3D", "force3D"):
                        if not blk.tracks:
                            continue
                        del blk.tracks[k % len(blk.tracks)]
                    elif t == "events":
                        if not blk.events:
                            continue
                        del blk.events[k % len(blk.events)]
                    elif t == "optical":
                        if not blk.channels:
                            continue
                        del blk.channels[k % len(blk.channels)]
                    else:
                        continue
                elif t == "data2D":
                    continue   # a 2D block has no item list to add to / remove from; only in-place cell edits apply
                else:
                    src = list(fresh) if t not in ("platCal", "platData") else [p for _, p in (fresh.platforms if t == "platCal" else list(fresh))]
                    if not src:
                        continue
                    it = src[k % len(src)]
                    if t == "emg":
                        # explicit free channel: the automatic one (max+1) leaves the 16-bit range when 32767 is in use,
                        # which no property speaks about
                        used = {int(c) for c in blk._emgMap}
                        c = 0
                        while c in used:
                            c += 1
                        blk.addSignal(it, channel=c)
                    elif t in ("platCal", "platData"):
                        used = {int(c) for c, _ in (blk.platforms if t == "platCal" else list(blk))}
                        c = 0
                        while c in used:
                            c += 1
                        blk.add_platform(it, channel=c)
                    elif t in ("data3D", "force3D"):
                        blk.add_track(it)
                    elif t == "events":
                        blk.events.append(it)
                    else:
                        blk.channels.append(it)
            except Exception as e:  # noqa
                from ..core import lib_frame

                if lib_frame(e) is None:
                    raise
                ctx.fail(f"{t}/edit-{kind}-raises-{type(e).__name__}", f"{t}: {kind} through the public interface raised {type(e).__name__}: {e}")
                break
            done += 1
            check_sizes(ctx, t, f"{t}-after-{kind}", blk, lambda: specs.lib_write(blk), lambda s_: cls._build(s_, spec["format"]))
    ctx.case(case, done > 0, labels=[t] + sorted({f"edit:{k}" for k, _ in case["edits"]}))


def _strategy(tier):
    return specs.any_block_case(tier)


# ---------------------------------------------------------------------------------------
MASK_LAYOUTS = {"none": [], "first": [0], "last": [-1], "middle-run": [3, 4, 5], "ends": [0, -1], "alternating": [0, 2, 4, 6, 8], "all-but-one": [0, 1, 2, 3, 4, 5, 6, 7, 8],
                "all": list(range(10))}


def enum_masked(tier):
    """gaps expressed with a numpy MaskedArray (np.ma.masked_where(force < threshold, cop)): the masked frames are gaps like NaN frames,
    whatever value lies under the mask"""
    from .c14 import FIELDS

    for t in FIELDS:
        for fi in range(len(FIELDS[t])):
            for layout in MASK_LAYOUTS:
                for under in ("finite", "nan", "mixed"):
                    for others in ("plain", "nan-at-the-same-frames"):
                        if len(FIELDS[t]) == 1 and others != "plain":
                            continue
                        yield {"t": t, "field": fi, "layout": layout, "under": under, "others": others}


def run_masked(ctx, case):
    import numpy as np

    from .c14 import FIELDS, _ramp, _rle_objects

    t, fi, layout, under, others = case["t"], case["field"], case["layout"], case["under"], case["others"]
    n = 10
    idx = [k % n for k in MASK_LAYOUTS[layout]]
    fields = {}
    for k, (name, w) in enumerate(FIELDS[t]):
        a = _ramp(n, w, start=3.0 + k)
        if k == fi:
            m = np.zeros(a.shape, dtype=bool)
            m[idx] = True
            if under in ("nan", "mixed"):
                a[idx[::2] if under == "mixed" else idx] = np.nan
            a = np.ma.masked_array(a, mask=m)
        elif others != "plain":
            a[idx] = np.nan
        fields[name] = a
    ok, blk = ctx.must(lambda: _rle_objects(t, n, [fields]), f"masked/{t}/build", f"constructing a {t} block whose {FIELDS[t][fi][0]} array is a MaskedArray")
    if ok:
        cls = specs.lib_class(t)
        fmt = blk.format.value if hasattr(blk.format, "value") else int(blk.format)
        check_sizes(ctx, t, f"masked/{t}", blk, lambda: specs.lib_write(blk), lambda s: cls._build(s, fmt))
        item = list(blk)[0]
        item = item[1] if isinstance(item, tuple) else item
        if t != "platData" and hasattr(item, "_write") and hasattr(item, "nBytes"):
            ok2, w = ctx.must(_wr(item._write), f"masked/{t}/item-encode", f"encoding the {t} item on its own")
            if ok2 and int(item.nBytes) != len(w):
                ctx.fail(f"masked/{t}/item-nBytes-vs-written", f"{t} item with a masked {FIELDS[t][fi][0]} array ({layout}): nBytes says {int(item.nBytes)}, its encoding has {len(w)} bytes")
    ctx.case(case, bool(idx), labels=[t, f"masked:{FIELDS[t][fi][0]}", layout, "under=" + under])


def _same_size_pairs():
    """pairs of valid blocks of ONE type that encode to the same number of bytes in DIFFERENT storage formats (3D data with an empty link table and
    n full frames / without links, n+1 frames, one gap: the second run table entry weighs what the link header does)"""
    out = []
    for n in (1, 4, 10):
        vals = specs._vals(5, n + 1, 3)
        a = {"t": "data3D", "format": 1, "nFrames": n, "frequency": 100, "startTime": 0, "volume": [0] * 3, "rot": [0] * 9, "trans": [0] * 3, "flag": 0, "links": [],
             "tracks": [{"label": "m", "frames": vals[:n]}]}
        gap = (n + 1) // 2
        b = {"t": "data3D", "format": 2, "nFrames": n + 1, "frequency": 100, "startTime": 0, "volume": [0] * 3, "rot": [0] * 9, "trans": [0] * 3, "flag": 0, "links": None,
             "tracks": [{"label": "m", "frames": [v if i != gap else None for i, v in enumerate(vals)]}]}
        if n >= 2 and len(reftdf.encode(a)) == len(reftdf.encode(b)):
            out.append((a, b))
    return out


def enum_same_size(tier):
    for i, _ in enumerate(_same_size_pairs()):
        for direction in ("1->2", "2->1"):
            for via in ("replace_block", "setter"):
                for position in ("only", "first", "last"):
                    yield {"pair": i, "direction": direction, "via": via, "position": position}


def run_same_size(ctx, case):
    from basictdf import Tdf
    from basictdf.tdfBlock import BlockType

    a, b = _same_size_pairs()[case["pair"]]
    if case["direction"] == "2->1":
        a, b = b, a
    ev = {"type": reftdf.TYPE_CODE["events"], "format": 1, "payload": reftdf.encode({"t": "events", "format": 1, "startTime": 0, "events": []}), "comment": "other", "cdate": 1, "mdate": 2}
    mine = {"type": reftdf.TYPE_CODE["data3D"], "format": a["format"], "payload": reftdf.encode(a), "comment": "mine", "cdate": 1, "mdate": 2}
    image = reftdf.build_image(4, {"only": [mine], "first": [mine, ev], "last": [ev, mine]}[case["position"]])
    d = env.fresh_dir()
    try:
        path = os.path.join(d, "f.tdf")
        with open(path, "wb") as f:
            f.write(image)
        code = reftdf.TYPE_CODE["data3D"]

        def history():
            with Tdf(path).allow_write() as w:
                blk = specs.build(b)
                if case["via"] == "setter":
                    w.data3D = blk
                else:
                    w.replace_block(blk)
                same = specs.extract(w.get_block(BlockType(code)))
                pos = w.handler.tell()
            with Tdf(path) as r:
                again = specs.extract(r.get_block(BlockType(code)))
            return same, pos, again
        ok, res = ctx.must(history, "same-size/replace-and-read", f"replacing a 3D block by one of the same byte size in the other storage format ({case['direction']}) and reading it back")
        if ok:
            same, pos, again = res
            data = open(path, "rb").read()
            e = [e for _, e in reftdf.live(reftdf.parse_container(data)) if e["type"] == code][0]
            if e["format"] != b["format"] or e["size"] != len(reftdf.encode(b)):
                ctx.fail("same-size/entry-format-or-size", f"after the replacement the entry says format {e['format']}, size {e['size']}; the block stored is format {b['format']}, "
                                                           f"{len(reftdf.encode(b))} bytes")
            if pos != e["offset"] + e["size"]:
                ctx.fail("same-size/consumed-vs-entry-size", f"reading the block back in the same session left the handle at {pos}; the entry says {e['offset']}+{e['size']}")
            for which, got in (("same-session", same), ("reopened", again)):
                dd = specs.first_diff(got, specs.canon(b))
                if dd:
                    ctx.fail(f"same-size/{which}-content", f"3D block replaced by one of the same size in the other format: read back ({which}) {dd[0]} is {str(dd[1])[:50]}, stored "
                                                           f"{str(dd[2])[:50]}")
    finally:
        env.rmdir(d)
    ctx.case(case, True, labels=["same-size-other-format", case["direction"], case["via"], case["position"]])


def enum_read_orders(tier):
    """files that hold blocks the library cannot decode between blocks it can: inside ONE context the blocks are read in every order,
    the undecodable ones included (their read fails - the usual 'catch and skip' loop); every successful read consumes exactly its entry"""
    import itertools

    layouts = {"opaque-first": ["opaque", "events", "optical"], "opaque-between": ["events", "opaque", "optical"], "two-opaque": ["opaque", "events", "opaque", "platCal"],
               "opaque-last": ["events", "optical", "opaque"]}
    for name, kinds in layouts.items():
        for order in itertools.permutations(range(len(kinds)), min(3, len(kinds))):
            for again in (False, True):
                yield {"layout": name, "kinds": kinds, "order": list(order) + ([order[0]] if again else []), "by": "index" if sum(order) % 2 else "type"}


def run_read_orders(ctx, case):
    from basictdf import Tdf
    from basictdf.tdfBlock import BlockType

    from .c07 import labelled_spec

    blocks, specs_ = [], []
    opaque_codes = [14, 10, 3]
    for k, kind in enumerate(case["kinds"]):
        if kind == "opaque":
            code = opaque_codes.pop(0)
            blocks.append({"type": code, "format": 1, "payload": bytes((7 * j + k) & 0xFF for j in range(100 + 36 * k)), "comment": "cannot be decoded", "cdate": 1, "mdate": 2, "adate": 3})
            specs_.append(None)
        else:
            sp = labelled_spec(kind, 2)
            blocks.append({"type": reftdf.TYPE_CODE[kind], "format": sp["format"], "payload": reftdf.encode(sp), "comment": kind, "cdate": 1, "mdate": 2, "adate": 3})
            specs_.append(sp)
    image = reftdf.build_image(len(blocks) + 2, blocks)
    parsed = reftdf.parse_container(image)
    d = env.fresh_dir()
    failed_reads = 0
    try:
        path = os.path.join(d, "f.tdf")
        with open(path, "wb") as f:
            f.write(image)
        with Tdf(path) as t:
            for step, i in enumerate(case["order"]):
                e = parsed["entries"][i]
                arg = i if case["by"] == "index" else BlockType(e["type"])
                try:
                    blk = t.get_block(arg)
                except Exception as ex:  # noqa
                    if specs_[i] is None:
                        failed_reads += 1     # a block type the library stores but cannot decode: whatever it raises, it is a skipped block
                        continue
                    from ..core import lib_frame

                    ctx.fail(f"read-orders/decodable-block-raises-{type(ex).__name__}", f"reading the {case['kinds'][i]} block (step {step} of order {case['order']}, layout "
                                                                                      f"{case['layout']}) raised {type(ex).__name__}: {str(ex)[:100]} @{lib_frame(ex)}")
                    continue
                if specs_[i] is None:
                    continue
                pos = t.handler.tell()
                if pos != e["offset"] + e["size"]:
                    ctx.fail("read-orders/consumed-vs-entry-size", f"after reading the {case['kinds'][i]} block (step {step} of order {case['order']}, layout {case['layout']}, "
                                                                   f"{failed_reads} failed reads before) the handle stands at {pos}; the entry says {e['offset']}+{e['size']}")
                if int(blk.nBytes) != e["size"]:
                    ctx.fail("read-orders/nBytes-vs-entry-size", f"the {case['kinds'][i]} block read at step {step} of order {case['order']} declares {int(blk.nBytes)} bytes, its entry {e['size']}")
                dd = specs.first_diff(specs.extract(blk), specs.canon(specs_[i]))
                if dd:
                    ctx.fail("read-orders/content", f"the {case['kinds'][i]} block read at step {step} of order {case['order']} (layout {case['layout']}): {dd[0]} is {str(dd[1])[:50]!r}, "
                                                    f"stored {str(dd[2])[:50]!r}")
    finally:
        env.rmdir(d)
    ctx.case(case, failed_reads > 0, labels=[case["layout"], f"failed-reads={failed_reads}", "by-" + case["by"]])


def _items_strategy(tier):
    return specs.any_block_case(tier, min_items=1)


SUBS = [
    Sub("blocks", run_block, strategy=_strategy, budget=(1500, 40000), shards=(4, 16),
        rule="generated valid blocks of all nine types; declared = written = consumed = reference size"),
    Sub("items", run_items, strategy=_items_strategy, budget=(1000, 30000), shards=(4, 16),
        rule="each nested item (track, signal, platform, camera, channel, event, 2D packet, viewport) of generated blocks on its own"),
    Sub("after-edits", run_edits, strategy=edits_strategy, budget=(500, 15000), shards=(2, 16),
        rule="blocks with >= 2 items edited through the public interface (remove / add items, in-place content edits, whole-list assignments that are refused half-way or "
             "come as one-shot iterators): declared = written = consumed after every edit"),
    Sub("long-tracks", run_block, strategy=specs.long_block_case, budget=(12, 300), shards=(6, 16),
        rule="blocks with 1-2 tracks of 257 .. 131079 frames, boundary-aligned gaps, thousands of runs, all input dtypes: declared = written = consumed = reference size"),
    Sub("boundary-counts", run_block, kind="enum", enumerate=specs.enum_boundary, shards=(8, 16),
        rule="78 fixed blocks whose counts sit on 2^8 / 2^15 / 2^16 (values per event, items per block, runs per track, frames per track, points per 2D cell, links); "
             "finite, enumerated", nontrivial_required=False),
    Sub("capture", run_capture, kind="enum", enumerate=enum_capture, shards=(1, 1),
        rule="the 8 blocks of the BTS-recorded capture vs. the sizes in its jump table (finite, enumerated)"),
    Sub("container-big", run_container_big, kind="enum", enumerate=enum_container_big, shards=(6, 6),
        rule="a file with 1 / 4 / 17 MiB of block data behind its first block, which is removed or replaced: every entry's size = bytes occupied = bytes decoded; finite, enumerated",
        nontrivial_required=False),
    Sub("masked-array-gaps", run_masked, kind="enum", enumerate=enum_masked, shards=(4, 8),
        rule="EMG / 3D data / 3D force / platform data with ONE sample array handed over as a numpy MaskedArray (gaps expressed by the mask: none, first, last, a run, both ends, "
             "alternating, all but one, all frames) x what lies under the mask (finite values, NaN, mixed) x the other fields plain or NaN at the same frames: declared = "
             "written = consumed, for the block and for the item; finite, enumerated", nontrivial_required=False),
    Sub("same-size-other-format", run_same_size, kind="enum", enumerate=enum_same_size, shards=(2, 4),
        rule="3D blocks of the same encoded size in the two storage formats (empty link table + n full frames / no links + n+1 frames with one gap), one stored, replaced by the "
             "other (replace_block / setter; only / first / last block), read back in the same session and after reopening: entry format and size, bytes consumed, content; "
             "finite, enumerated", nontrivial_required=False),
    Sub("container-read-orders", run_read_orders, kind="enum", enumerate=enum_read_orders, shards=(4, 8),
        rule="files holding undecodable block types before / between / behind decodable ones, read inside ONE context in every order of up to three entries (by index / by "
             "type, first entry once more at the end); the reads of undecodable blocks fail and are skipped; after every successful read the handle stands at offset + size, "
             "nBytes = entry size and the content is what was stored; finite, enumerated", nontrivial_required=False),
    Sub("container", run_container, strategy=container_strategy, budget=(150, 4000), shards=(2, 16),
        rule="1..4 generated blocks of distinct types added to a new file; entry sizes vs. independent parse of the file"),
]
from ..core import optimised_child_sub  # noqa: E402
SUBS.append(optimised_child_sub("C02", ["boundary-counts", "items", "blocks"]))
