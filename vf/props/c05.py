"""C05 - missing-data gaps survive storage exactly; gap frames always read as NaN."""
import io
import os

import numpy as np
from hypothesis import strategies as st

from .. import codec, env, poison, reftdf, specs
from ..core import Sub

PROP = {
    "id": "C05",
    "level": "exploration",
    "technique": "exhaustive enumeration of all 2^n presence masks (n<=10 quick, n<=14 thorough) x 4 run-length track kinds + Hypothesis run-length masks up to 400 frames in multi-track blocks; oracle: independent segment parser on the written bytes, decode under two poisoned allocators; missing frames as any NaN bit pattern; coupled arrays in different dtypes; enumerated: gaps on 2^k frame numbers, long runs in all dtypes, a block replaced through a second Tdf object and re-read through the first, two decodes overlapping in time (the stream hands over to a second thread inside a read() call)",
    "level_text": ("Exploration with an exhaustive sub-domain: for each of the four run-length coded track kinds every presence mask "
                   "over n frames is enumerated completely for small n (reported as exhaustive for that sub-domain); larger n and "
                   "multi-track blocks are sampled with masks built from run lengths. The written segment table is parsed by an "
                   "independent reader and must equal the unique maximal-run decomposition; decoding runs twice with numpy.empty "
                   "returning differently poisoned memory, which makes 'uninitialised gap frames' deterministic. Each track object is then edited in "
                   "place to a different gap pattern and written again: the run table must follow the data it holds at write time."),
    "level_note": "Trusted: reftdf's segment parser; control over process memory state is limited to arrays obtained through numpy.empty (C-level allocations that bypass the Python name are out of reach).",
    "design_ref": "DESIGN.md section 3, C05",
    "rule": ("(a) case = (kind, n, mask) for every mask; (b) case = generated block spec of a run-length type; non-trivial = the mask has "
             ">= 1 missing frame; classes: #segments 0/1/2/3+, gap at first frame, gap at last frame; distinct by sha1 of the case"),
    "assumptions": ["numpy.empty may return arbitrary contents (poison bytes 0x41/0x3E/0xC2/0x01 model that)",
                    "present frames hold finite values; a frame is missing only as a whole (all components of all coupled arrays)"],
}

KINDS = ["data3D", "emg", "force3D", "platData"]


def _item_io(kind, n):
    """(make(frames)->item, write(item)->bytes, build(stream)->item, arrays(item)->list of arrays, has_label)"""
    H = specs.PLAIN_HINTS
    if kind == "data3D":
        from basictdf.tdfData3D import MarkerTrack
        return (lambda fr: MarkerTrack("m", specs.frames_to_array(fr, 3, H)), lambda it: _w(it._write),
                lambda s: MarkerTrack._build(s, n), lambda it: [it.data], True)
    if kind == "emg":
        from basictdf.tdfEMG import EMGTrack
        return (lambda fr: EMGTrack("e", specs.frames_to_array(fr, 1, H)), lambda it: _w(it._write),
                lambda s: EMGTrack._build(s, n), lambda it: [it.data], True)
    if kind == "force3D":
        from basictdf.tdfForce3D import ForceTorqueTrack

        def mk(fr):
            a = specs.frames_to_array(fr, 9, H)
            return ForceTorqueTrack("f", a[:, 0:3].copy(), a[:, 3:6].copy(), a[:, 6:9].copy())
        return (mk, lambda it: _w(it._write), lambda s: ForceTorqueTrack._build(s, n),
                lambda it: [it.application_point, it.force, it.torque], True)
    from basictdf.tdfForcePlatformsData import ForcePlatformBlockFormat, ForcePlatformData
    F = ForcePlatformBlockFormat.byTrackISSFormat

    def mk(fr):
        a = specs.frames_to_array(fr, 6, H)
        return ForcePlatformData(a[:, 0:2].copy(), a[:, 2:5].copy(), a[:, 5].copy())
    return (mk, lambda it: _w(lambda b: it._write(b, F)), lambda s: ForcePlatformData._build(s, F, n),
            lambda it: [it.application_point, it.force, np.asarray(it.torque).reshape(-1, 1)], False)


def _w(fn):
    b = io.BytesIO()
    fn(b)
    return b.getvalue()


def check_segments(ctx, kind, segs, frames):
    """the written run table against the property's wording"""
    n = len(frames)
    present = {i for i, f in enumerate(frames) if f is not None}
    covered = set()
    prev_end = None
    for s, L in segs:
        if L <= 0:
            ctx.fail(f"{kind}/segments-empty-run", f"{kind}: run ({s},{L}) is empty")
        if s < 0 or s + L > n:
            ctx.fail(f"{kind}/segments-out-of-range", f"{kind}: run ({s},{L}) outside 0..{n}")
        if prev_end is not None:
            if s < prev_end:
                ctx.fail(f"{kind}/segments-overlap-or-unordered", f"{kind}: run starting at {s} begins before the previous run ends ({prev_end})")
            elif s == prev_end:
                ctx.fail(f"{kind}/segments-not-maximal", f"{kind}: two runs touch at frame {s}")
        prev_end = s + L
        covered |= set(range(s, s + L))
    if covered != present:
        extra, missing = sorted(covered - present)[:5], sorted(present - covered)[:5]
        ctx.fail(f"{kind}/segments-cover", f"{kind}: runs cover frames they should not {extra} / miss present frames {missing}")
    if [tuple(x) for x in segs] != reftdf.runs_of(frames):
        ctx.fail(f"{kind}/segments-differ", f"{kind}: run table {segs[:6]} != maximal runs {reftdf.runs_of(frames)[:6]}")


def check_item(ctx, kind, frames):
    n = len(frames)
    pf = specs.PER_FRAME[kind]
    make, write, build, arrays, has_label = _item_io(kind, n)
    ok, item = ctx.must(lambda: make(frames), f"{kind}/construct", f"constructing a {kind} track")
    if not ok:
        return
    ok, w = ctx.must(lambda: write(item), f"{kind}/encode", f"encoding a {kind} track with gaps")
    if not ok:
        return
    # independent parse of the written bytes
    d = reftdf.Dec(w)
    segs = []
    try:
        if has_label:
            d.string(256)
        stored = reftdf._dec_rle(d, n, pf, segs)
    except reftdf.RefError as e:
        ctx.fail(f"{kind}/written-bytes-unparseable", f"{kind}: written track does not parse: {e}")
        return
    check_segments(ctx, kind, segs[0], frames)
    if d.pos != len(w):
        ctx.fail(f"{kind}/written-length", f"{kind}: {len(w) - d.pos} bytes follow the last run's data")
    if stored != frames:
        dd = specs.first_diff(stored, frames)
        ctx.fail(f"{kind}/stored-values", f"{kind}: data section differs from the present frames at {dd[0]}")
    # decode under two different memory states
    outs = []
    for pb in (0x41, 0xC2):
        with poison.poisoned(pb):
            ok, it2 = ctx.must(lambda: build(io.BytesIO(w)), f"{kind}/decode", f"decoding a {kind} track with gaps")
        if not ok:
            return
        outs.append(specs.array_to_frames(arrays(it2), scalar=(pf == 1)))
    for got in outs:
        if len(got) != n:
            ctx.fail(f"{kind}/decoded-length", f"{kind}: decoded {len(got)} frames, wrote {n}")
            return
        for i, (g, f) in enumerate(zip(got, frames)):
            if f is None and g is not None:
                ctx.fail(f"{kind}/gap-frame-not-nan", f"{kind}: frame {i} is missing but decodes to {g} (not NaN in every component)")
            elif f is not None and g != f:
                ctx.fail(f"{kind}/present-frame-value", f"{kind}: frame {i} decodes to {g}, stored {f}")
    if outs[0] != outs[1]:
        ctx.fail(f"{kind}/decode-not-deterministic", f"{kind}: two decodes of the same bytes differ (memory-state dependent)")
    if n >= 3:
        # views of what was decoded (every other frame; all but the first frame) wrapped in a NEW item: its runs and values are those of the views
        src = it2
        for tag, sl in (("every-other-frame", slice(None, None, 2)), ("tail", slice(1, None))):
            want = frames[sl]
            if kind == "data3D":
                from basictdf.tdfData3D import MarkerTrack
                new = MarkerTrack("v", src.data[sl])
            elif kind == "emg":
                from basictdf.tdfEMG import EMGTrack
                new = EMGTrack("v", src.data[sl])
            elif kind == "force3D":
                from basictdf.tdfForce3D import ForceTorqueTrack
                new = ForceTorqueTrack("v", src.application_point[sl], src.force[sl], src.torque[sl])
            else:
                from basictdf.tdfForcePlatformsData import ForcePlatformData
                new = ForcePlatformData(src.application_point[sl], src.force[sl], src.torque[sl])
            ok, wv = ctx.must(lambda: write(new), f"{kind}/encode-views", f"encoding a {kind} track made of views of a decoded one")
            if not ok:
                return
            dv = reftdf.Dec(wv)
            sv = []
            try:
                if has_label:
                    dv.string(256)
                stored_v = reftdf._dec_rle(dv, len(want), pf, sv)
            except reftdf.RefError as e:
                ctx.fail(f"{kind}/views-unparseable", f"{kind}: a track made of views ({tag}) of a decoded track does not parse: {e}")
                return
            if [tuple(x) for x in sv[0]] != reftdf.runs_of(want) or stored_v != want:
                ctx.fail(f"{kind}/views-of-decoded-wrong", f"{kind}: a new track made of views ({tag}) of a decoded track is written with runs {sv[0][:5]} / other values "
                                                           f"than the views hold (runs {reftdf.runs_of(want)[:5]})")
    # the same track object, its gap pattern changed in place, written again: the run table must follow the data it holds NOW
    frames2 = frames[1:] + frames[:1] if n > 1 else [None if frames[0] is not None else (0x3F800000 if pf == 1 else [0x3F800000] * pf)]
    if frames2 != frames:
        try:
            full = specs.frames_to_array(frames2, pf, specs.PLAIN_HINTS)
            arrs = arrays(item)
            if pf == 1:
                arrs[0][:] = full
            else:
                col = 0
                for a in arrs:
                    w_ = a.shape[1] if a.ndim == 2 else 1
                    a[...] = full[:, col:col + w_].reshape(a.shape)
                    col += w_
        except (ValueError, TypeError):
            return  # arrays not writable in place: nothing to check
        ok, w2 = ctx.must(lambda: write(item), f"{kind}/encode-after-edit", f"encoding a {kind} track after its data were edited in place")
        if not ok:
            return
        d2 = reftdf.Dec(w2)
        segs2 = []
        try:
            if has_label:
                d2.string(256)
            stored2 = reftdf._dec_rle(d2, n, pf, segs2)
        except reftdf.RefError as e:
            ctx.fail(f"{kind}/after-edit-unparseable", f"{kind}: track written after an in-place edit does not parse: {e}")
            return
        if [tuple(x) for x in segs2[0]] != reftdf.runs_of(frames2) or stored2 != frames2:
            ctx.fail(f"{kind}/stale-runs-after-edit", f"{kind}: after the gap pattern was changed in place the written run table is {segs2[0][:6]}, "
                                                      f"the data now has runs {reftdf.runs_of(frames2)[:6]}")
        ok, nb = ctx.must(lambda: item.nBytes, f"{kind}/nBytes-after-edit", "nBytes after edit")
        if ok and nb != len(w2):
            ctx.fail(f"{kind}/nBytes-after-edit", f"{kind}: nBytes {nb} vs {len(w2)} bytes written after an in-place edit")


def mask_labels(kind, frames):
    runs = reftdf.runs_of(frames)
    k = len(runs)
    labs = [kind, f"segments={'0' if k == 0 else '1' if k == 1 else '2' if k == 2 else '3+'}"]
    if frames and frames[0] is None:
        labs.append("gap-at-first-frame")
    if frames and frames[-1] is None:
        labs.append("gap-at-last-frame")
    return labs


def frames_for(kind, n, mask):
    pf = specs.PER_FRAME[kind]
    seed = n * 7919 + KINDS.index(kind)
    out = []
    for i in range(n):
        if (mask >> i) & 1:
            v = [specs.finite32(specs.mix(seed, i * 9 + j) >> 16) for j in range(pf)]
            out.append(v[0] if pf == 1 else v)
        else:
            out.append(None)
    return out


def run_mask(ctx, case):
    kind, n, mask = case["kind"], case["n"], case["mask"]
    frames = frames_for(kind, n, mask)
    check_item(ctx, kind, frames)
    ctx.case(case, any(f is None for f in frames), labels=mask_labels(kind, frames))


def enum_masks(tier):
    top = 10 if tier == "quick" else 14
    for n in range(1, top + 1):
        for mask in range(1 << n):
            for kind in KINDS:
                yield {"kind": kind, "n": n, "mask": mask}


# ---------------------------------------------------------------------------------------
def tracks_strategy(tier):
    nmax = 300 if tier == "quick" else 600

    @st.composite
    def cases(draw):
        kind = draw(st.sampled_from(KINDS))
        n = draw(st.one_of(st.integers(1, 30), st.integers(1, nmax)))
        return {"kind": kind, "frames": draw(specs.rle_frames(n, specs.PER_FRAME[kind]))}

    return cases()


def run_track(ctx, case):
    check_item(ctx, case["kind"], case["frames"])
    ctx.case(case, any(f is None for f in case["frames"]), labels=mask_labels(case["kind"], case["frames"]))


EXTREMES = {"+max": 0x7F7FFFFF, "-max": 0xFF7FFFFF, "+tiny": 0x00000001, "-tiny": 0x80000001, "-0": 0x80000000, "+0": 0, "half-max": 0x7EFFFFFF, "f16-max": 0x477FE000,
            "2^127": 0x7F000000, "one": 0x3F800000}


def enum_extremes(tier):
    """every frame of a short track filled with ONE extreme finite value (or two alternating ones): sums, products and differences of the
    components overflow or vanish although every component is a perfectly good sample; x all masks over 4 frames"""
    names = sorted(EXTREMES)
    for kind in KINDS:
        pf = specs.PER_FRAME[kind]
        for a in names:
            for b in (a, "+max", "-max", "one"):
                for mask in range(1, 16):
                    frames = []
                    for i in range(4):
                        if not (mask >> i) & 1:
                            frames.append(None)
                        else:
                            vals = [EXTREMES[a] if (i + c) % 2 == 0 else EXTREMES[b] for c in range(pf)]
                            frames.append(vals[0] if pf == 1 else vals)
                    yield {"kind": kind, "frames": frames, "_values": f"{a}/{b}"}


def blocks_strategy(tier):
    def one(t):
        return st.fixed_dictionaries({"spec": specs.SPEC[t](tier, 1), "hints": specs.HINTS})
    return st.sampled_from(KINDS).flatmap(one)


def run_block(ctx, case):
    """several tracks per block: run tables in the block's bytes, gap frames after block decode"""
    spec, hints = specs.expand_case(case)
    t = spec["t"]
    its = codec.items(spec)
    ok, blk = ctx.must(lambda: specs.build(spec, hints), f"{t}/block-build", f"constructing a {t} block")
    if not ok:
        return
    ok, w = ctx.must(lambda: specs.lib_write(blk), f"{t}/block-encode", f"encoding a {t} block with gaps")
    if not ok:
        return
    try:
        _, used, _, segs = reftdf.decode(t, spec["format"], w)
    except reftdf.RefError as e:
        ctx.fail(f"{t}/block-bytes-unparseable", f"{t}: written block does not parse: {e}")
        return
    for it, sg in zip(its, segs):
        check_segments(ctx, t, sg, it["frames"])
    outs = []
    for pb in (0x3E, 0x01):
        with poison.poisoned(pb):
            ok, res = ctx.must(lambda: specs.lib_decode(t, spec["format"], w), f"{t}/block-decode", f"decoding a {t} block with gaps")
        if not ok:
            return
        outs.append([x["frames"] for x in codec.items(specs.extract(res[0]))])
    want = [x["frames"] for x in its]
    for got in outs:
        if got != want:
            d = specs.first_diff(got, want)
            tr, fr = (d[0].split("/") + ["?", "?"])[1:3]
            w_ = want[int(tr)][int(fr)] if tr.isdigit() and fr.isdigit() else "?"
            ctx.fail(f"{t}/{'gap-frame-not-nan' if w_ is None else 'present-frame-value'}",
                     f"{t}: track {tr} frame {fr}: decoded {str(d[1])[:60]}, stored {str(d[2])[:60]}")
    if outs[0] != outs[1]:
        ctx.fail(f"{t}/decode-not-deterministic", f"{t}: two decodes of the same block differ")
    labs = set()
    for it in its:
        labs |= set(mask_labels(t, it["frames"]))
    labs.add(f"tracks={'1' if len(its) == 1 else '2+'}")
    ctx.case(case, any(f is None for it in its for f in it["frames"]), labels=sorted(labs))


def coupled_strategy(tier):
    """force/torque and platform-data blocks whose three coupled arrays arrive in DIFFERENT dtypes; the application point lies on a grid
    (small integers / halves) so that it is exactly representable in narrow types (float16, int16, int32, uint8) too"""
    import struct

    grid = st.sampled_from([0, 1, 2, 3, 5, 10, 100, 549, 1000, -1, -2, -7, -100, 0.5, 1.5, -0.25, 2048]).map(lambda v: struct.unpack("<I", struct.pack("<f", v))[0])

    @st.composite
    def cases(draw):
        t = draw(st.sampled_from(["force3D", "force3D", "platData"]))
        spec = draw(specs.SPEC[t](tier, 1))
        nap = 3 if t == "force3D" else 2
        ints = draw(st.booleans())
        for it in codec.items(spec):
            fr = it["frames"]
            for i, f in enumerate(fr):
                if f is None and ints:
                    f = fr[i] = [draw(specs.f32bits) for _ in range(specs.PER_FRAME[t])]   # integer arrays cannot carry gaps
                if f is not None:
                    f[:nap] = [draw(grid) for _ in range(nap)]
        ap = draw(st.sampled_from(["<i2", "<i4", "<i8", "u1", "<f2"] if ints else ["<f2", "<f2", ">f2", "<f4"]))
        hints = dict(draw(specs.HINTS), coupled=[ap, draw(st.sampled_from(["<f4", "<f8", ">f8", "<f8"])), draw(st.sampled_from(["<f4", "<f8", ">f4"]))])
        return {"spec": spec, "hints": hints}

    return cases()


SUBS = [
    Sub("masks-exhaustive", run_mask, kind="enum", enumerate=enum_masks, shards=(8, 16),
        rule="all 2^n presence masks, n = 1..10 (quick) / 1..14 (thorough), x {3D marker, EMG signal, force/torque track, platform data}; finite, enumerated completely"),
    Sub("tracks-sampled", run_track, strategy=tracks_strategy, budget=(1200, 40000), shards=(4, 16),
        rule="single tracks with up to 60 / 400 frames; masks built from run lengths (long runs, single frames, gaps at both ends, all/none missing)"),
    Sub("blocks", run_block, strategy=blocks_strategy, budget=(600, 20000), shards=(4, 16),
        rule="blocks of the four run-length types with 1..5 (12) tracks; run tables parsed from the block bytes; block decode under two poisons"),
]
def enum_boundary(tier):
    for kind in KINDS:
        for B in (256, 1024, 4096, 65536) if kind != "force3D" else (256, 1024, 4096, 16384):
            for pat in ("before", "after", "across", "single-before", "single-at", "two-gaps"):
                yield {"kind": kind, "B": B, "pattern": pat}


def run_boundary(ctx, case):
    """long single tracks whose gaps start / end exactly at a power-of-two frame number"""
    kind, B, pat = case["kind"], case["B"], case["pattern"]
    n, k = B + 50, 7
    lo, hi = {"before": (B - k, B), "after": (B, B + k), "across": (B - k, B + k), "single-before": (B - 1, B), "single-at": (B, B + 1),
              "two-gaps": (B - 20, B - 10)}[pat]
    missing = set(range(lo, hi)) | (set(range(B - 3, B)) if pat == "two-gaps" else set())
    pf = specs.PER_FRAME[kind]
    frames = []
    for i in range(n):
        if i in missing:
            frames.append(None)
        else:
            v = [specs.finite32(specs.mix(B, i * 9 + j) >> 16) for j in range(pf)]
            frames.append(v[0] if pf == 1 else v)
    check_item(ctx, kind, frames)
    ctx.case(case, True, labels=[kind, f"boundary={B}", pat])


SUBS.append(Sub("boundary-masks", run_boundary, kind="enum", enumerate=enum_boundary, shards=(12, 16),
                rule="single tracks of B+50 frames with gaps placed exactly before / after / across frame B, B in {256, 1024, 4096, 65536} (16384 for force/torque); finite, enumerated"))
SUBS.append(Sub("extreme-values", run_track, kind="enum", enumerate=enum_extremes, shards=(4, 16),
                rule="4 track kinds x 10 extreme finite values (largest, smallest, signed zeros, 2^127, float16's largest) alone and alternating with +-max / 1.0 x all 15 non-empty "
                     "masks over 4 frames; finite, enumerated", nontrivial_required=False))
SUBS.append(Sub("coupled-dtypes", run_block, strategy=coupled_strategy, budget=(300, 8000), shards=(2, 8),
                rule="force/torque and platform-data blocks whose coupled arrays come in different dtypes (application point as int16/32/64, uint8, float16 on an exactly "
                     "representable grid; force / torque as float32/64 in either byte order): run tables and every present value after decode"))
SUBS.append(Sub("boundary-counts", run_block, kind="enum", enumerate=specs.enum_boundary_rle, shards=(8, 16),
        rule="52 fixed blocks of the four run-length types whose counts sit on 2^7 / 2^8 / 2^15 / 2^16 (tracks per block, runs per track, frames per track); finite, enumerated",
        nontrivial_required=False))
SUBS.append(Sub("long-runs-all-dtypes", run_block, kind="enum", enumerate=specs.enum_long_runs, shards=(8, 16),
        rule="each run-length type x one gap-free run of 8189 / 8190 / 16382 / 65537 frames x input dtype <f4 <f8 >f4 >f8 x C / F order; finite, enumerated",
        nontrivial_required=False))
SUBS.append(Sub("long-tracks", run_block, strategy=specs.long_block_case, budget=(16, 400), shards=(8, 16),
                rule="blocks with 1-2 tracks of 257 .. 131079 frames; gaps that start or end exactly at 256 / 1024 / 4096 / 8192 / 16384 / 65536 / 131072, "
                     "every second..fifth frame missing (thousands of runs), sparse gaps; all input dtypes / byte orders / layouts"))
# ---------------------------------------------------------------------------------------
MASK_PAIRS = [("1101", "1011"), ("0111", "1110"), ("110011", "100111"), ("101", "101"), ("1001", "0110"), ("11110000", "00001111"), ("1", "1"), ("10", "01")]


def _masked_block(t, mask, seed):
    n = len(mask)
    items = []
    for i in range(2):
        vals = specs._vals(seed + 7 * i, n, specs.PER_FRAME[t])
        m = mask if i == 0 else mask[::-1]
        items.append(specs._rle_item(t, i, [v if c == "1" else None for v, c in zip(vals, m)]))
    return specs._rle_block(t, n, items)


def enum_two_objects(tier):
    """a block read through a long-lived Tdf object, replaced through ANOTHER object for the same path by one of the same type and byte size
    whose gaps lie elsewhere (same number of runs and present frames) or whose values differ, then read through the first object again"""
    for t in specs.RLE_TYPES:
        for ma, mb in MASK_PAIRS:
            for how in ("get_block", "getter", "blocks", "getitem"):
                for between in ("context-left", "same-context"):
                    for position in ("last", "first", "only"):
                        yield {"t": t, "first": ma, "second": mb, "how": how, "between": between, "position": position}


def run_two_objects(ctx, case):
    from basictdf import Tdf
    from basictdf.tdfBlock import BlockType

    from .. import container

    t, how = case["t"], case["how"]
    spec1, spec2 = _masked_block(t, case["first"], 11), _masked_block(t, case["second"], 23)
    p1, p2 = reftdf.encode(spec1), reftdf.encode(spec2)
    if len(p1) != len(p2):
        ctx.case(case, False, labels=["two-objects", "sizes-differ"])
        return
    code = reftdf.TYPE_CODE[t]
    ev = reftdf.encode({"t": "events", "format": 1, "startTime": 0, "events": []})
    mine = {"type": code, "format": 1, "payload": p1, "comment": "first", "cdate": 1, "mdate": 2, "adate": 3}
    other = {"type": reftdf.TYPE_CODE["events"], "format": 1, "payload": ev, "comment": "the other block", "cdate": 1, "mdate": 2, "adate": 3}
    # (as the LAST or ONLY block the replacement lands at the very offset of the old one: nothing in the table but the dates tells them apart)
    image = reftdf.build_image(4, {"last": [other, mine], "first": [mine, other], "only": [mine]}[case.get("position", "first")])
    d = env.fresh_dir()
    try:
        path = os.path.join(d, "f.tdf")
        with open(path, "wb") as f:
            f.write(image)
        a = Tdf(path)

        def read(obj):
            if how == "get_block":
                return obj.get_block(BlockType(code))
            if how == "getter":
                return getattr(obj, container.GETTERS[t])
            if how == "blocks":
                return [b for b in obj.blocks if b.type.value == code][0]
            return [obj[i] for i in range(len(obj)) if obj.entries[i].type.value == code][0]

        def history():
            out = []
            if case["between"] == "context-left":
                with a:
                    out.append(specs.extract(read(a)))
                with Tdf(path).allow_write() as w:
                    w.replace_block(specs.build(spec2))
                with a:
                    out.append(specs.extract(read(a)))
            else:
                with a:
                    out.append(specs.extract(read(a)))
                    with Tdf(path).allow_write() as w:
                        w.replace_block(specs.build(spec2))
                    a.__exit__(None, None, None)
                    a.__enter__()
                    out.append(specs.extract(read(a)))
            return out
        ok, res = ctx.must(history, f"two-objects/{how}/history", f"reading a {t} block through a long-lived object before and after it was replaced through another object")
        if ok:
            for which, got, want in (("before", res[0], specs.canon(spec1)), ("after", res[1], specs.canon(spec2))):
                dd = specs.first_diff(got, want)
                if dd:
                    ctx.fail(f"two-objects/{how}/{which}-replacement-{specs.diff_class(dd[0])}",
                             f"{t}: read through a long-lived Tdf object {which} the block was replaced (through another object, same byte size, gaps {case['first']} -> "
                             f"{case['second']}): {dd[0]} is {str(dd[1])[:50]}, the file holds {str(dd[2])[:50]}")
            # what is in the file now: the run table of the second block
            data = open(path, "rb").read()
            e = [e for _, e in reftdf.live(reftdf.parse_container(data)) if e["type"] == code][0]
            if data[e["offset"]:e["offset"] + e["size"]] != specs.lib_write(specs.build(spec2), sink="fresh"):
                ctx.fail(f"two-objects/{how}/stored-bytes", f"{t}: the file does not hold the encoding of the block it was given last")
    finally:
        env.rmdir(d)
    ctx.case(case, case["first"] != case["second"], labels=["two-objects", t, how, case["between"]])


def enum_overlap(tier):
    """two decodes that OVERLAP IN TIME: the stream of the first one hands over, inside its k-th read() call, to a second thread that decodes
    another block of the same kind (other gaps, other values) from start to end; then the first decode goes on. Deterministic - the schedule
    is owned by the stream."""
    for t in specs.RLE_TYPES:
        for ma, mb in (("110111", "101101"), ("011110", "110011"), ("1111", "0110"), ("10101010", "01010101")):
            for k in range(0, 48):
                yield {"t": t, "first": ma, "second": mb, "k": k}


def run_overlap(ctx, case):
    import threading

    t, k = case["t"], case["k"]
    spec1, spec2 = _masked_block(t, case["first"], 31), _masked_block(t, case["second"], 47)
    spec2 = dict(spec2)
    b1, b2 = reftdf.encode(spec1), reftdf.encode(spec2)
    cls = specs.lib_class(t)
    box = {}

    class Handoff(io.BytesIO):
        calls = 0

        def read(self, *a):
            Handoff.calls += 1
            if Handoff.calls == k + 1:
                def other():
                    try:
                        box["second"] = cls._build(io.BytesIO(b2), 1)
                    except Exception as e:  # noqa
                        box["second-error"] = e
                th = threading.Thread(target=other)
                th.start()
                th.join(60)
            return super().read(*a)

    Handoff.calls = 0
    ok, first = ctx.must(lambda: cls._build(Handoff(b1), 1), "overlap/decode-first", f"decoding a {t} block while another thread decodes another one inside read() call {k}")
    if "second-error" in box:
        e = box["second-error"]
        ctx.fail(f"overlap/second-decode-raises-{type(e).__name__}", f"{t}: the decode made by a second thread while the first was inside a read() raised {type(e).__name__}: {e}")
    if ok:
        for which, blk, spec in (("interrupted", first, spec1), ("interrupting", box.get("second"), spec2)):
            if blk is None:
                continue
            dd = specs.first_diff(specs.extract(blk), specs.canon(spec))
            if dd:
                ctx.fail(f"overlap/{which}-decode-{specs.diff_class(dd[0])}", f"{t}: two decodes overlapping in time (hand-over inside read() call {k} of {Handoff.calls}): the {which} "
                                                                              f"one gives {dd[0]} = {str(dd[1])[:50]}, its bytes say {str(dd[2])[:50]}")
    ctx.case(case, "second" in box, labels=["overlap", t, "handed-over" if "second" in box else "k-beyond-last-read"])


SUBS.append(Sub("replaced-through-another-object", run_two_objects, kind="enum", enumerate=enum_two_objects, shards=(4, 8),
                rule="4 run-length types x 8 pairs of gap patterns of equal encoded size x 4 read paths (get_block / getter / .blocks / index) x (context left / re-entered) x (the block is the first / last / only one): a block "
                     "read through a long-lived Tdf object, replaced through another object for the same path, read again through the first: gaps and values are those of the "
                     "file; finite, enumerated", nontrivial_required=False))
SUBS.append(Sub("overlapping-decodes", run_overlap, kind="enum", enumerate=enum_overlap, shards=(4, 8),
                rule="4 run-length types x 4 pairs of gap patterns x the read() call (0..47) of the first decode inside which a second thread decodes another block from start to "
                     "end (the stream owns the schedule: deterministic): both decodes give gaps and values of their own bytes; finite, enumerated", nontrivial_required=False))
from ..core import optimised_child_sub  # noqa: E402
SUBS.append(optimised_child_sub("C05", ["extreme-values", "boundary-masks"]))
TIME_BUDGET = {"quick": 120, "thorough": 1500}
