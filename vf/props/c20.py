"""C20 - separately created blocks share no state."""
import numpy as np
from hypothesis import strategies as st

from .. import reftdf, specs
from ..core import Sub, build_machine, run_history

PROP = {
    "id": "C20",
    "level": "exploration",
    "technique": "Hypothesis RuleBasedStateMachine per block class with a pool of instances: construct (without items / with a fresh explicit list), decode (same bytes several times), add / remove / in-place edit on one instance, encode; invariant: every other instance's item identities and encoding are unchanged, a block constructed without items is empty; the in-place editor also rebinds array attributes of nested library objects; one non-numpy sequence handed to two constructors",
    "level_text": ("Exploration of interleavings over 2..5 live instances of one block class. After every step a snapshot (item object "
                   "identities + encoding) of every instance that was not the target of the step is compared with the snapshot taken "
                   "before; new instances made without items must be empty whatever happened to earlier ones. A second sub-check reads the same block "
                   "twice through the file API (get_block, [], getters, blocks) and edits one copy."),
    "level_note": "Caller-side aliasing (handing one list or array to two constructors) is never generated. In-place edits that numpy refuses (read-only decoded arrays) count as no-ops.",
    "design_ref": "DESIGN.md section 5, C20",
    "rule": "case = {init, ops}; non-trivial = an instance is created after another one was mutated; distinct by sha1 of the history",
    "assumptions": [],
}

TYPES = ["optical", "events", "emg", "data3D", "force3D", "platCal", "platData"]
N = 3  # frames per track


class Adapter:
    def __init__(self, t):
        self.t = t
        self.k = 0

    def tag(self):
        self.k += 1
        return self.k

    def item(self):
        t, k = self.t, self.tag()
        v = float(k)
        if t in ("emg", "data3D", "force3D", "platData"):
            # presence pattern by tag: fully present / wholly missing / gap at the start
            pat = k % 3
            fill = lambda shape: np.full(shape, v, dtype="<f4") if pat == 0 else np.full(shape, np.nan, dtype="<f4")  # noqa
            def arr(shape):
                a = fill(shape)
                if pat == 2:
                    a[-1] = v
                return a
            if t == "emg":
                from basictdf.tdfEMG import EMGTrack
                return EMGTrack(f"s{k}", arr(N))
            if t == "data3D":
                from basictdf.tdfData3D import MarkerTrack
                return MarkerTrack(f"m{k}", arr((N, 3)))
            if t == "force3D":
                from basictdf.tdfForce3D import ForceTorqueTrack
                return ForceTorqueTrack(f"f{k}", arr((N, 3)), arr((N, 3)), arr((N, 3)))
            from basictdf.tdfForcePlatformsData import ForcePlatformData
            return ForcePlatformData(arr((N, 2)), arr((N, 3)), arr(N))
        if t == "optical":
            from basictdf.tdfOpticalSystem import OpticalChannelData
            from basictdf.tdfTypes import CameraViewPort
            return OpticalChannelData(k, "l", "t", f"c{k}", CameraViewPort(np.array([0, 0], dtype="<i4"), np.array([k, k], dtype="<i4")))
        if t == "events":
            from basictdf.tdfEvents import Event, EventsDataType
            return Event(f"e{k}", [v, v + 1], EventsDataType.eventSequence)
        if t == "emg":
            from basictdf.tdfEMG import EMGTrack
            return EMGTrack(f"s{k}", np.full(N, v, dtype="<f4"))
        if t == "data3D":
            from basictdf.tdfData3D import MarkerTrack
            return MarkerTrack(f"m{k}", np.full((N, 3), v, dtype="<f4"))
        if t == "force3D":
            from basictdf.tdfForce3D import ForceTorqueTrack
            return ForceTorqueTrack(f"f{k}", np.full((N, 3), v, dtype="<f4"), np.full((N, 3), v, dtype="<f4"), np.full((N, 3), v, dtype="<f4"))
        if t == "platCal":
            from basictdf.tdfForcePlatformsCalibration import ForcePlatformInfo
            return ForcePlatformInfo(f"p{k}", np.array([1, 2], dtype="<f4"), np.full((4, 3), v, dtype="<f4"))
        from basictdf.tdfForcePlatformsData import ForcePlatformData
        return ForcePlatformData(np.full((N, 2), v, dtype="<f4"), np.full((N, 3), v, dtype="<f4"), np.full(N, v, dtype="<f4"))

    def empty(self):
        t = self.t
        one = np.ones(3, dtype="<f4")
        if t == "optical":
            from basictdf.tdfOpticalSystem import OpticalSetupBlock
            return OpticalSetupBlock()
        if t == "events":
            from basictdf.tdfEvents import TemporalEventsData
            return TemporalEventsData()
        if t == "emg":
            from basictdf.tdfEMG import EMG
            return EMG(1000, N)
        if t == "data3D":
            from basictdf.tdfData3D import Data3D
            return Data3D(100, N, one.copy(), np.eye(3, dtype="<f4"), one.copy())
        if t == "force3D":
            from basictdf.tdfForce3D import ForceTorque3D
            return ForceTorque3D(100, N, one.copy(), np.eye(3, dtype="<f4"), one.copy())
        if t == "platCal":
            from basictdf.tdfForcePlatformsCalibration import ForcePlatformsCalibrationDataBlock
            return ForcePlatformsCalibrationDataBlock()
        from basictdf.tdfForcePlatformsData import ForcePlatformsDataBlock
        return ForcePlatformsDataBlock(0.0, 100, N)

    def with_items(self, k):
        t = self.t
        fresh = [self.item() for _ in range(k)]
        if t == "optical":
            from basictdf.tdfOpticalSystem import OpticalSetupBlock, OpticalSetupBlockFormat
            return OpticalSetupBlock(OpticalSetupBlockFormat.basicFormat, fresh)
        if t == "platCal":
            from basictdf.tdfForcePlatformsCalibration import ForcePlatformsCalibrationDataBlock
            return ForcePlatformsCalibrationDataBlock(platforms=fresh)
        b = self.empty()
        for it in fresh:
            self.add(b, it)
        return b

    def items(self, b):
        t = self.t
        if t == "optical":
            return list(b.channels)
        if t == "events":
            return list(b.events)
        if t in ("emg", "data3D", "force3D"):
            return list(iter(b))
        if t == "platCal":
            return [p for _, p in b.platforms]
        return list(b.platforms)

    def add(self, b, it):
        t = self.t
        if t == "optical":
            b.channels.append(it)
        elif t == "events":
            b.events.append(it)
        elif t == "emg":
            b.addSignal(it)
        elif t in ("data3D", "force3D"):
            b.add_track(it)
        elif t == "platCal":
            b.add_platform(it)
        else:
            used = {int(c) for c, _ in b}
            c = 0
            while c in used:
                c += 1
            b.add_platform(it, channel=c)

    def remove(self, b):
        t = self.t
        its = self.items(b)
        if not its:
            return False
        if t == "optical":
            b.channels.pop()
        elif t == "events":
            b.events.pop(0)
        elif t == "emg":
            b.removeSignal(its[-1].label)
        elif t in ("data3D", "force3D"):
            b.tracks.pop()
        elif t == "platCal":
            b.remove_platform(0)
        else:
            return False
        return True

    def edit(self, b, how):
        """in-place edit of one item of b (or, every third time, of the block's own header arrays)"""
        t = self.t
        if how % 3 == 2 and t in ("data3D", "force3D"):
            try:
                b.volume[0] = 77.0
                b.rotationMatrix[0, 0] = 77.0
                b.translationVector[0] = 77.0
            except (ValueError, TypeError):  # read-only decoded arrays: nothing changed
                pass
            return True
        its = self.items(b)
        if not its:
            return False
        it = its[how % len(its)]
        try:
            if t == "optical":
                it.camera_name = "edited"
                np.asarray(it.camera_viewport.size)[0] = 99
            elif t == "events":
                it.values[0] = 99.0
                it.label = "edited"
            elif t in ("emg", "data3D"):
                it.data[:] = 99.0
                it.label = "edited"
            elif t == "force3D":
                it.application_point[:] = 99.0
                it.force[:] = 99.0
                it.torque[:] = 99.0
                it.label = "edited"
            elif t == "platCal":
                it.position[0] = 99.0
                it.label = "edited"
            else:
                it.application_point[:] = 99.0
                it.force[:] = 99.0
                it.torque[:] = 99.0
        except (ValueError, TypeError):  # read-only decoded array: numpy refused, nothing changed
            pass
        return True

    def decode(self, data):
        fmt = {"optical": 1, "events": 1, "emg": 1, "data3D": 1, "force3D": 1, "platCal": 2, "platData": 1}[self.t]
        return specs.lib_decode(self.t, fmt, data)[0]


class Interp:
    def __init__(self, ctx, init):
        self.ctx = ctx
        self.t = init["t"]
        self.ad = Adapter(self.t)
        self.pool = []
        self.mutated = False
        self.stats = {"created-after-mutation": 0, "decoded": 0, "mutations": 0, "empty-created": 0}
        for k in init.get("start", [0, 0]):
            self.create("empty" if k == 0 else "with-items", k, 0)

    def snap(self, b):
        return ([id(x) for x in self.ad.items(b)], specs.lib_write(b))

    def snaps(self):
        return [self.snap(b) for b in self.pool]

    def compare(self, before, skip, where):
        tgt_ids = set(before[skip][0]) if 0 <= skip < len(before) else set()
        for j, b in enumerate(self.pool[:len(before)]):
            if j == skip:
                continue
            ids, enc = self.snap(b)
            if where == "edit" and tgt_ids & set(before[j][0]):
                # the two blocks hold some of the SAME item objects because the history assigned one block's items to the other
                # (the caller's choice): editing such an item shows in both. Their lists are still their own.
                if ids != before[j][0]:
                    self.ctx.fail(f"{self.t}/{where}/other-instance-items-changed", f"{self.t}: {where} on instance {skip} changed the item list of instance {j}")
                continue
            if ids != before[j][0]:
                self.ctx.fail(f"{self.t}/{where}/other-instance-items-changed",
                              f"{self.t}: {where} on instance {skip} changed the items of instance {j} ({len(before[j][0])} -> {len(ids)} items)")
            elif enc != before[j][1]:
                self.ctx.fail(f"{self.t}/{where}/other-instance-encoding-changed", f"{self.t}: {where} on instance {skip} changed the encoding of instance {j}")

    def create(self, how, k, src):
        before = self.snaps()
        if how == "empty":
            b = self.ad.empty()
            n = len(self.ad.items(b))
            if n != 0:
                self.ctx.fail(f"{self.t}/new-block-not-empty", f"{self.t}: a block constructed without items starts with {n} items (earlier instances were modified)")
            fresh_enc = specs.lib_write(b)
            ref_enc = specs.lib_write(self.ad.decode(fresh_enc)) if n == 0 else fresh_enc
            if n == 0 and len(self.ad.items(self.ad.decode(fresh_enc))) != 0:
                self.ctx.fail(f"{self.t}/new-block-encodes-items", f"{self.t}: empty block encodes items")
            self.stats["empty-created"] += 1
        elif how == "with-items":
            b = self.ad.with_items(k)
            if len(self.ad.items(b)) != k:
                self.ctx.fail(f"{self.t}/new-block-wrong-count", f"{self.t}: a block constructed with {k} fresh items holds {len(self.ad.items(b))}")
        else:
            if not self.pool:
                return
            data = specs.lib_write(self.pool[src % len(self.pool)])
            b = self.ad.decode(data)
            self.stats["decoded"] += 1
            # decoding the same bytes twice must give two independent objects
            b2 = self.ad.decode(data)
            if any(x is y for x in self.ad.items(b) for y in self.ad.items(b2)):
                self.ctx.fail(f"{self.t}/decode-shares-items", f"{self.t}: two decodes of the same bytes share item objects")
            # what a block hands out on lookup is one of ITS items - also when another block holds an equal one that was looked up first
            if self.t in ("events", "emg", "data3D", "force3D"):
                for blk_ in (b, b2):
                    own = {id(x) for x in self.ad.items(blk_)}
                    for x in self.ad.items(blk_):
                        try:
                            got = blk_[x.label]
                        except Exception:  # noqa - C18's subject
                            continue
                        if id(got) not in own:
                            self.ctx.fail(f"{self.t}/lookup-returns-item-of-another-instance", f"{self.t}: lookup of label {x.label!r} on one decoded block returned an item "
                                                                                              f"object that belongs to another block (an equal twin)")
            self.pool.append(b2)
        if self.mutated:
            self.stats["created-after-mutation"] += 1
        self.pool.append(b)
        self.compare(before, -1, f"create-{how}")

    def apply(self, op):
        o = op["op"]
        if o == "create":
            if len(self.pool) >= 6:
                self.pool.pop(0)
            self.create(op["how"], op.get("k", 1), op.get("src", 0))
            return
        if not self.pool:
            return
        i = op["i"] % len(self.pool)
        b = self.pool[i]
        before = self.snaps()
        if o == "adopt":
            # this instance takes over the items of another one through the public getter / setter: afterwards they hold the same item
            # objects, but each its own list - adding to or removing from one must not show in the other
            if self.t not in ("data3D", "force3D", "events", "optical") or len(self.pool) < 2:
                return
            src = self.pool[(i + 1 + op.get("how", 0)) % len(self.pool)]
            if src is b:
                return
            if self.t in ("data3D", "force3D"):
                b.tracks = src.tracks
            elif self.t == "events":
                b.events = list(src.events)   # a plain attribute: the caller copies (handing over the very list would be caller-side aliasing)
            else:
                b.channels = list(src.channels)
            self.stats["adoptions"] = self.stats.get("adoptions", 0) + 1
            changed = True
        elif o == "share-item":
            # an item OBJECT that sits in another instance is added to this one as well, under another channel / position: the item is
            # shared by the caller's choice, what each block says about it (its channel there) is the block's own
            if self.t not in ("emg", "platCal", "platData") or len(self.pool) < 2:
                return
            src = self.pool[(i + 1 + op.get("how", 0)) % len(self.pool)]
            its = self.ad.items(src)
            if src is b or not its:
                return
            it = its[op.get("how", 0) % len(its)]
            if any(x is it for x in self.ad.items(b)):
                return
            used = {int(c) for c in (b._emgMap if self.t == "emg" else [c for c, _ in (b.platforms if self.t == "platCal" else list(b))])}
            src_ch = {int(c) for c in (src._emgMap if self.t == "emg" else [c for c, _ in (src.platforms if self.t == "platCal" else list(src))])}
            ch = next(c for c in range(500, 900) if c not in used and c not in src_ch)
            if self.t == "emg":
                b.addSignal(it, channel=ch)
            else:
                b.add_platform(it, channel=ch)
            self.stats["shared-items"] = self.stats.get("shared-items", 0) + 1
            changed = True
        elif o == "add":
            self.ad.add(b, self.ad.item())
            changed = True
        elif o == "remove":
            changed = self.ad.remove(b)
        else:
            changed = self.ad.edit(b, op.get("how", 0))
        if changed:
            self.mutated = True
            self.stats["mutations"] += 1
        self.compare(before, i, o)

    def finish(self):
        pass

    def close(self):
        self.pool = []


def summarize(it, case):
    return it.stats["created-after-mutation"] > 0, [it.t] + [k for k, v in it.stats.items() if v]


def inits(t):
    return st.fixed_dictionaries({"t": st.just(t), "start": st.lists(st.integers(0, 2), min_size=1, max_size=3)})


def ops(t):
    i = st.integers(0, 20)
    create = st.fixed_dictionaries({"op": st.just("create"), "how": st.sampled_from(["empty", "empty", "with-items", "decode"]), "k": st.integers(1, 3), "src": i})
    mut = st.fixed_dictionaries({"op": st.sampled_from(["add", "add", "remove", "edit", "adopt", "share-item"]), "i": i, "how": i})
    return st.one_of(create, mut, mut)


def make(t):
    def machine(ctx, tier):
        return build_machine(ctx, Interp, inits(t), ops(t), summarize)

    def run(ctx, case):
        run_history(ctx, case, Interp, summarize)

    return Sub(t, run, kind="machine", machine=machine, budget=(80, 1500), shards=(1, 4), steps=(20, 40),
               rule=f"{t}: interleavings of construct / decode / add / remove / edit / encode over a pool of instances")


# ---------------------------------------------------------------------------------------
# blocks obtained through the file API: every read is a separate decode call
ACCESS = ["get_block-type", "get_block-index", "getitem", "getter", "blocks"]


def file_strategy(tier):
    import hypothesis.strategies as st_

    return st_.fixed_dictionaries({"types": st_.lists(st_.sampled_from(TYPES), min_size=1, max_size=3, unique=True),
                                   "a": st_.sampled_from(ACCESS), "b": st_.sampled_from(ACCESS), "edit": st_.sampled_from(["add", "remove", "edit", "edit"]),
                                   "how": st_.integers(0, 20), "same_context": st_.sampled_from([True, True, False])})


def run_file(ctx, case):
    import os

    from basictdf import Tdf
    from basictdf.tdfBlock import BlockType

    from .. import env, reftdf
    from ..container import GETTERS

    d = env.fresh_dir()
    try:
        path = os.path.join(d, "f.tdf")
        t0 = Tdf.new(path)
        ads = {t: Adapter(t) for t in case["types"]}
        with t0.allow_write() as w:
            for t in case["types"]:
                w.add_block(ads[t].with_items(2))
        target = case["types"][case["how"] % len(case["types"])]
        code = reftdf.TYPE_CODE[target]
        ad = ads[target]

        def fetch(f, how):
            if how == "get_block-type":
                return f.get_block(BlockType(code))
            idx = case["types"].index(target)
            if how == "get_block-index":
                return f.get_block(idx)
            if how == "getitem":
                return f[idx]
            if how == "getter" and target in GETTERS:
                return getattr(f, GETTERS[target])
            if how == "blocks":
                return f.blocks[idx]
            return f.get_block(BlockType(code))

        tdf = Tdf(path)
        if case["same_context"]:
            with tdf as f:
                a = fetch(f, case["a"])
                b = fetch(f, case["b"])
        else:
            a = fetch(tdf, case["a"])
            b = fetch(tdf, case["b"])
        if a is b:
            ctx.fail(f"file/{target}/same-object", f"{target}: two reads of the same block through the file API ({case['a']}, {case['b']}) returned the very same object")
        ia, ib = ad.items(a), ad.items(b)
        if any(x is y for x in ia for y in ib):
            ctx.fail(f"file/{target}/shared-items", f"{target}: two reads of the same block through the file API share item objects")
        before = (len(ib), specs.lib_write(b))
        if case["edit"] == "add":
            ad.add(a, ad.item())
        elif case["edit"] == "remove":
            ad.remove(a)
        else:
            ad.edit(a, case["how"])
        after = (len(ad.items(b)), specs.lib_write(b))
        if after != before:
            ctx.fail(f"file/{target}/other-read-changed", f"{target}: editing the block obtained by one read ({case['edit']}) changed the block obtained by another read of the same file")
        # the file itself is untouched by editing either copy
        fresh = Tdf(path).get_block(BlockType(code))
        if specs.lib_write(fresh) != before[1]:
            ctx.fail(f"file/{target}/file-content-changed", f"{target}: editing a block read from the file changed what the file yields")
    finally:
        env.rmdir(d)
    ctx.case(case, True, labels=[f"file:{target}", f"access:{case['a']}+{case['b']}", "same-context" if case["same_context"] else "separate-contexts", f"edit:{case['edit']}"])


# ---------------------------------------------------------------------------------------
# deep mutation: every mutable container reachable from one instance is edited in place; a sibling made the same way,
# and a block constructed afterwards, must not notice
ALL_TYPES = ["optical", "events", "emg", "data3D", "force3D", "platCal", "platData", "data2D", "calib"]


def _minimal_block(t):
    from .c14 import _minimal

    return specs.build(_minimal(t))


def _some_block(t, seed):
    """a small block with items, every array / list freshly made"""
    from .c07 import labelled_spec
    from .c14 import _minimal

    if t == "calib":
        spec = dict(_minimal("calib"))
        cam = {"rot": [seed] * 9, "trans": [0] * 3, "focus": [0] * 2, "center": [0] * 2, "radial": [0, 0], "decentering": [0, 0], "prism": [0, 0], "vp": [0, 0, 1, 1]}
        spec.update(cams=[cam, dict(cam)], map=[0, 1])
        return specs.build(spec)
    return specs.build(labelled_spec(t, 2))


def _roomy_block(t, seed):
    """a block whose arrays are large enough (hundreds of bytes each) for any bulk-read path of the decoder"""
    from .c07 import labelled_spec
    from .c14 import _minimal

    if t == "data3D":
        spec = dict(labelled_spec("data3D", 2), format=1, links=[[i, i + 1] for i in range(40 + seed % 5)])
    elif t == "calib":
        cam = {"rot": [seed] * 9, "trans": [0] * 3, "focus": [0] * 2, "center": [0] * 2, "xd": [seed + i for i in range(70)], "yd": [i for i in range(70)], "vp": [0, 0, 1, 1]}
        spec = dict(_minimal("calib"), format=2, cams=[cam, dict(cam)], map=[0, 1])
    elif t == "data2D":
        spec = {"t": "data2D", "format": 2, "nCams": 2, "nFrames": 2, "frequency": 100, "startTime": 0, "flags": 0, "camMap": [0, 1],
                "cells": [[[[0x3F800000 + i, 0x40000000 + i] for i in range(40)], None], [None, [[0x3F800000, 0x3F800000]] * 33]]}
    elif t == "events":
        spec = {"t": "events", "format": 1, "startTime": 0, "events": [{"label": "many", "type": 1, "values": [0x3F800000 + i for i in range(80)]}, {"label": "e", "type": 0, "values": [0x3F800000]}]}
    elif t in specs.RLE_TYPES:
        spec = specs._rle_block(t, 100, [specs._rle_item(t, i, specs._vals(seed + i, 100, specs.PER_FRAME[t])) for i in range(2)])
    else:
        spec = labelled_spec(t, 3)
    return specs.build(spec)


def deep_mutate(obj, depth=0, seen=None):
    """edit in place every list and writable array reachable through instance attributes; returns the number of edits"""
    import numpy as np

    seen = seen if seen is not None else set()
    if id(obj) in seen or depth > 3:
        return 0
    seen.add(id(obj))
    n = 0
    attrs = list(vars(obj).items()) if hasattr(obj, "__dict__") else []
    for name, v in attrs:
        if isinstance(v, list):
            for x in list(v):
                n += deep_mutate(x, depth + 1, seen)
            v.append(v[0] if v else (0, 1))
            n += 1
        elif isinstance(v, np.ndarray):
            if v.dtype == object:
                for x in v.flat:
                    if isinstance(x, np.ndarray) and x.size and x.flags.writeable:
                        x.flat[0] = 77.0
                        n += 1
            elif v.size and v.flags.writeable:
                try:
                    v.flat[0] = 77 if v.dtype.kind in "iu" else 77.0
                    n += 1
                except (ValueError, TypeError):
                    pass
        elif hasattr(v, "__dict__") and type(v).__module__.startswith("basictdf"):
            n += deep_mutate(v, depth + 1, seen)
    if depth >= 1 and type(obj).__module__.startswith("basictdf"):
        # a NESTED library object (an item, a viewport inside an item): besides editing its containers in place, its array attributes are
        # REBOUND to other values (ch.camera_viewport.size = [w, h]) - the one edit that read-only decoded arrays allow
        for name, v in attrs:
            if isinstance(v, np.ndarray) and v.dtype != object and v.size:
                try:
                    setattr(obj, name, (np.array(v) * 0 + 77).astype(v.dtype))
                    n += 1
                except Exception:  # noqa - a read-only property: nothing to rebind
                    pass
    return n


def _bare(t):
    """the class constructor alone, required arguments only (each a fresh object), nothing assigned afterwards: whatever
    containers the instance holds now were put there by the constructor itself"""
    one = lambda: np.ones(3, dtype="<f4")  # noqa
    eye = lambda: np.eye(3, dtype="<f4")  # noqa
    if t == "optical":
        from basictdf.tdfOpticalSystem import OpticalSetupBlock
        return OpticalSetupBlock()
    if t == "events":
        from basictdf.tdfEvents import TemporalEventsData
        return TemporalEventsData()
    if t == "event-item":
        from basictdf.tdfEvents import Event
        return Event("e")
    if t == "emg":
        from basictdf.tdfEMG import EMG
        return EMG(1000, N)
    if t == "data3D":
        from basictdf.tdfData3D import Data3D
        return Data3D(100, N, one(), eye(), one())
    if t == "force3D":
        from basictdf.tdfForce3D import ForceTorque3D
        return ForceTorque3D(100, N, one(), eye(), one())
    if t == "platCal":
        from basictdf.tdfForcePlatformsCalibration import ForcePlatformsCalibrationDataBlock
        return ForcePlatformsCalibrationDataBlock()
    if t == "platData":
        from basictdf.tdfForcePlatformsData import ForcePlatformsDataBlock
        return ForcePlatformsDataBlock(0.0, 100, N)
    if t == "data2D":
        from basictdf.tdfData2D import Data2D, Data2DFlags
        return Data2D(4, N, 100, 0.0, Data2DFlags(0))
    from basictdf.tdfCalibrationData import CalibrationDataBlock, DistorsionModel
    return CalibrationDataBlock(DistorsionModel(0), one(), eye(), one(), np.zeros(0, dtype="<i2"), [])


def deep_snapshot(obj, depth=0):
    """structural picture of everything reachable from an instance (arrays by dtype/shape/bytes); timestamps left out"""
    import enum

    if depth > 6:
        return "..."
    if isinstance(obj, np.ndarray):
        if obj.dtype == object:
            return ["objarr", list(obj.shape), [deep_snapshot(x, depth + 1) for x in obj.flat]]
        return ["arr", str(obj.dtype), list(obj.shape), obj.tobytes().hex()]
    if isinstance(obj, (list, tuple)):
        return [type(obj).__name__] + [deep_snapshot(x, depth + 1) for x in obj]
    if isinstance(obj, dict):
        return {repr(k): deep_snapshot(v, depth + 1) for k, v in obj.items()}
    if isinstance(obj, enum.Enum):
        return repr(obj)
    if hasattr(obj, "__dict__") and type(obj).__module__.startswith("basictdf"):
        return {k: deep_snapshot(v, depth + 1) for k, v in sorted(vars(obj).items()) if not k.endswith("_date")}
    return repr(obj)


def deep_strategy(tier):
    import hypothesis.strategies as st_

    made = st_.fixed_dictionaries({"t": st_.sampled_from(ALL_TYPES), "origin": st_.sampled_from(["constructed", "constructed-empty", "decoded", "decoded-same-stream",
                                                                                                 "decoded-same-stream", "decoded-roomy", "escaped-arrays", "dead-instances"]), "seed": st_.integers(1, 50)})
    bare = st_.fixed_dictionaries({"t": st_.sampled_from(ALL_TYPES + ["event-item"]), "origin": st_.just("bare-constructor"), "seed": st_.integers(1, 50),
                                   "when": st_.sampled_from(["sibling-before", "sibling-after", "both"])})
    return st_.one_of(made, made, bare)


def run_deep_bare(ctx, case):
    t = case["t"]
    pristine = deep_snapshot(_bare(t))
    a = _bare(t)
    b = _bare(t) if case["when"] in ("sibling-before", "both") else None
    before = deep_snapshot(b) if b is not None else None
    edits = deep_mutate(a)
    if b is not None and deep_snapshot(b) != before:
        ctx.fail(f"deep/{t}/bare-sibling-changed", f"{t}: two instances made by the constructor alone; editing in place every container reachable from one changed "
                                                   f"what the other holds", {"before": before, "after": deep_snapshot(b)})
    if case["when"] in ("sibling-after", "both"):
        c = deep_snapshot(_bare(t))
        if c != pristine:
            ctx.fail(f"deep/{t}/bare-new-not-pristine", f"{t}: an instance made by the constructor alone after another instance was edited in place does not start "
                                                        f"like a pristine one", {"pristine": pristine, "now": c})
    ctx.case(case, edits > 0, labels=[f"deep:{t}", "bare-constructor", case["when"]])


def run_deep(ctx, case):
    t, origin = case["t"], case["origin"]
    if origin == "bare-constructor":
        return run_deep_bare(ctx, case)
    fmt = {"platCal": 2, "data2D": 2}.get(t, 1)

    def make():
        if origin == "constructed-empty":
            return _minimal_block(t)
        b = _some_block(t, case["seed"])
        return b if origin == "constructed" else specs.lib_decode(t, fmt, specs.lib_write(b))[0]

    pristine_empty = specs.lib_write(_minimal_block(t))
    if origin == "dead-instances":
        # instances with content are made and DROPPED, one after the other, and each time a bare instance is constructed right afterwards
        # (CPython hands the freed address out again): whatever the library keeps about an object must die with it
        pristine = deep_snapshot(_bare(t))
        pristine_enc = None
        try:
            pristine_enc = specs.lib_write(_bare(t))
        except Exception:  # noqa - a bare 2D block cannot be written: the snapshot decides
            pass
        reused = 0
        for k in range(25):
            victim = _roomy_block(t, case["seed"] + k) if k % 2 else specs.lib_decode(t, fmt if t not in ("data3D", "calib") else (1 if t == "data3D" else 2),
                                                                                      specs.lib_write(_roomy_block(t, case["seed"] + k)))[0]
            addr = id(victim)
            del victim
            fresh = _bare(t)
            reused += id(fresh) == addr
            shot = deep_snapshot(fresh)
            enc = None
            if pristine_enc is not None:
                try:
                    enc = specs.lib_write(fresh)
                except Exception as e:  # noqa
                    enc = f"{type(e).__name__}"
            if shot != pristine or enc != pristine_enc:
                ctx.fail(f"deep/{t}/new-instance-inherits-from-a-dead-one", f"{t}: an instance constructed right after another one (with content) was dropped does not look / encode "
                                                                            f"like a pristine one (round {k}, same address: {id(fresh) == addr})")
            del fresh
        ctx.case(case, reused > 0, labels=[f"deep:{t}", origin, "address-reused" if reused else "address-never-reused"])
        return
    if origin == "escaped-arrays":
        # arrays taken out of a decoded block that is then dropped (x = tdf.emg[label].data): they are the caller's now. Used in ONE new,
        # constructor-made block, they must not be refilled by whatever is decoded next.
        import gc

        from .c16 import make_track

        if t not in specs.RLE_TYPES:
            ctx.case(case, False, labels=[f"deep:{t}", origin, "not-applicable"])
            return
        n = 64 + case["seed"]
        src = specs.build(specs._rle_block(t, n, [specs._rle_item(t, i, specs._vals(case["seed"] + i, n, specs.PER_FRAME[t])) for i in range(2)]))
        data = specs.lib_write(src)
        dec = specs.lib_decode(t, 1, data)[0]
        its = list(dec) if t != "platData" else [p for _, p in dec]
        if t in ("data3D", "emg"):
            arrays = [(x.label, x.data) for x in its]
        elif t == "force3D":
            arrays = [(x.label, x.application_point, x.force, x.torque) for x in its]
        else:
            arrays = [(x.application_point, x.force, x.torque) for x in its]
        del dec, its
        gc.collect()
        fresh = specs.build(specs._rle_block(t, n, []))
        for a in arrays:
            if t == "data3D":
                from basictdf.tdfData3D import MarkerTrack
                fresh.add_track(MarkerTrack(*a))
            elif t == "emg":
                from basictdf.tdfEMG import EMGTrack
                fresh.addSignal(EMGTrack(*a))
            elif t == "force3D":
                from basictdf.tdfForce3D import ForceTorqueTrack
                fresh.add_track(ForceTorqueTrack(*a))
            else:
                from basictdf.tdfForcePlatformsData import ForcePlatformData
                fresh.add_platform(ForcePlatformData(*a))
        before = specs.lib_write(fresh)
        other = specs.same_shape_other_data(specs.extract(src))
        later = [specs.lib_decode(t, 1, reftdf.encode(other))[0] for _ in range(3)]   # kept alive: they may now own recycled buffers
        deep_mutate(later[0])
        if specs.lib_write(fresh) != before:
            ctx.fail(f"deep/{t}/escaped-array-refilled", f"{t}: arrays taken from a decoded block (the block itself dropped and collected) were used in a new block; decoding "
                                                         f"other {t} data of the same shape afterwards changed what the new block encodes")
        ctx.case(case, True, labels=[f"deep:{t}", origin])
        return
    if origin in ("decoded-same-stream", "decoded-roomy"):
        # two decode calls on the SAME bytes: from one stream object rewound in between (a decoder that hands out views into the
        # stream's buffer would make the two blocks share memory), or from two streams over one bytes object
        import io

        src = _roomy_block(t, case["seed"])
        fmt = src.format.value if hasattr(src.format, "value") else fmt
        data = specs.lib_write(src)
        cls = specs.lib_class(t)
        if origin == "decoded-same-stream":
            stream = io.BytesIO(b"\x00" * 5 + data)
            stream.seek(5)
            a = cls._build(stream, fmt)
            stream.seek(5)
            b = cls._build(stream, fmt)
        else:
            a, b = cls._build(io.BytesIO(data), fmt), cls._build(io.BytesIO(data), fmt)
    else:
        a, b = make(), make()
    before = specs.lib_write(b)
    shot = deep_snapshot(b)
    edits = deep_mutate(a)
    after = specs.lib_write(b)
    if deep_snapshot(b) != shot:
        ctx.fail(f"deep/{t}/sibling-changed", f"{t} ({origin}): editing every container reachable from one instance in place changed an attribute of a separately made instance")
    if after != before:
        ctx.fail(f"deep/{t}/sibling-changed", f"{t} ({origin}): editing every container reachable from one instance in place changed the encoding of a "
                                              f"separately made instance ({len(before)} -> {len(after)} bytes)")
    fresh = specs.lib_write(_minimal_block(t))
    if fresh != pristine_empty:
        ctx.fail(f"deep/{t}/new-block-not-pristine", f"{t}: a block constructed after another instance was edited in place does not encode like a pristine one "
                                                      f"({len(pristine_empty)} -> {len(fresh)} bytes)")
    ctx.case(case, edits > 0, labels=[f"deep:{t}", origin])


def _event_sources():
    import array
    import ctypes

    class HasArray:   # an object that exposes its samples through __array__ (what pandas / xarray / torch containers do)
        def __init__(self, v):
            self._v = np.array(v, dtype="<f4")

        def __array__(self, dtype=None, copy=None):
            return self._v if dtype is None else self._v.astype(dtype, copy=False)

        def __len__(self):
            return len(self._v)

        def __iter__(self):
            return iter(self._v)

    v = [0.5, 1.5, 2.5]
    return {"list": lambda: list(v), "tuple": lambda: tuple(v), "array.array-f": lambda: array.array("f", v), "array.array-d": lambda: array.array("d", v),
            "ctypes-float": lambda: (ctypes.c_float * 3)(*v), "ctypes-double": lambda: (ctypes.c_double * 3)(*v),
            "memoryview-f": lambda: memoryview(array.array("f", v)), "bytearray-backed-f4": lambda: memoryview(bytearray(np.array(v, "<f4").tobytes())).cast("f"),
            "has-__array__": lambda: HasArray(v), "range": lambda: range(3), "deque": lambda: __import__("collections").deque(v)}


def enum_sources(tier):
    for src in _event_sources():
        for kind in (1, 0):
            for how in ("two-events", "two-blocks-and-decoded-twin"):
                yield {"source": src, "type": kind, "how": how}


def run_sources(ctx, case):
    """ONE sequence object (not a numpy array) handed to two separate constructor calls: each constructor converts it, so each object owns
    what it made of it - as with a list"""
    import io

    from basictdf.tdfEvents import Event, EventsDataType, TemporalEventsData

    src = _event_sources()[case["source"]]()
    kind = EventsDataType(case["type"])
    if kind == EventsDataType.singleEvent:
        one = _event_sources()[case["source"]]
        src = type(src)(list(src)[:1]) if case["source"] in ("list", "tuple", "deque") else src
    try:
        e1, e2 = Event("strike", src, kind), Event("strike", src, kind)
    except Exception:  # noqa - a constructor that does not take this kind of sequence (or three values for a single event): C19's subject
        ctx.case(case, False, labels=["sources", case["source"], "refused"])
        return
    a, b = TemporalEventsData(), TemporalEventsData()
    a.events.append(e1)
    b.events.append(e2)

    def enc(x):
        s = io.BytesIO()
        x._write(s)
        return s.getvalue()

    before_b, vals_b = enc(b), np.array(e2.values).tolist()
    edited = False
    try:
        e1.values[0] = 99.0     # an item of block a is edited in place
        edited = True
    except Exception:  # noqa - an immutable source / read-only values: nothing edited, nothing to show
        pass
    if edited:
        if np.array(e2.values).tolist() != vals_b or enc(b) != before_b:
            ctx.fail(f"sources/{case['how']}/sibling-changed", f"two Event objects made by separate constructor calls from one {case['source']} object: "
                                                               f"editing the values of one in place "
                                                               f"changed the other ({vals_b} -> {np.array(e2.values).tolist()})")
        if case["how"] == "two-blocks-and-decoded-twin":
            twin = TemporalEventsData._build(io.BytesIO(before_b), b.format.value)
            if enc(twin) != enc(b):
                ctx.fail("sources/decoded-twin-differs", f"a block holding an Event made from a {case['source']} object no longer encodes like the block decoded from its own "
                                                         f"earlier encoding, after ANOTHER block's event (made from the same source object) was edited")
    ctx.case(case, edited, labels=["sources", case["source"], case["how"], "edited" if edited else "not-editable"])


def enum_elsewhere(tier):
    """what was done to OTHER instances earlier in the process (adds and removals, default and explicit channels) has no influence on what a
    block made afterwards contains and encodes: the same construction gives the same bytes as in a process where nothing happened before"""
    for t in ("emg", "platCal", "platData", "data3D", "force3D", "events", "optical"):
        for history in ("remove-first", "remove-last", "remove-all", "add-explicit-high", "remove-then-add", "assign-empty"):
            for origin in ("constructed", "decoded"):
                yield {"t": t, "history": history, "origin": origin}


def _fill_default(t, b, k):
    """k items added with default numbering"""
    from .c16 import make_track

    for i in range(k):
        if t == "emg":
            b.addSignal(make_track("emg", N, f"s{i}", i))
        elif t == "platCal":
            from basictdf.tdfForcePlatformsCalibration import ForcePlatformInfo
            b.add_platform(ForcePlatformInfo(f"p{i}", np.array([1.0, 2.0], dtype="<f4"), np.full((4, 3), float(i), dtype="<f4")))
        elif t == "platData":
            from basictdf.tdfForcePlatformsData import ForcePlatformData
            b.add_platform(ForcePlatformData(np.full((N, 2), float(i), "<f4"), np.full((N, 3), float(i), "<f4"), np.full(N, float(i), "<f4")))
        elif t in ("data3D", "force3D"):
            b.add_track(make_track(t, N, f"t{i}", i))
        elif t == "events":
            from basictdf.tdfEvents import Event
            b.events.append(Event(f"e{i}", [float(i)]))
        else:
            from basictdf.tdfOpticalSystem import OpticalChannelData
            b.channels.append(OpticalChannelData(i, "l", "t", f"c{i}", np.array([[0, 0], [10 + i, 20]], dtype="<i4")))


def run_elsewhere(ctx, case):
    from .. import env

    t, history, origin = case["t"], case["history"], case["origin"]
    fmt = {"platCal": 2, "data2D": 2}.get(t, 1)

    def later_block():
        b = _bare(t)
        _fill_default(t, b, 2)
        if origin == "decoded":
            b = specs.lib_decode(t, fmt, specs.lib_write(b))[0]
            _fill_default(t, b, 1)
        return specs.lib_write(b)

    env.reset_library_state()
    ok, reference = ctx.must(later_block, f"elsewhere/{t}/reference", f"constructing and filling a {t} block in a fresh module state")
    if not ok:
        return
    env.reset_library_state()

    def earlier():
        a = _bare(t)
        _fill_default(t, a, 3)
        items = [x[1] if isinstance(x, tuple) else x for x in list(a)] if t != "optical" else list(a.channels)
        if history in ("remove-first", "remove-last", "remove-all", "remove-then-add"):
            which = {"remove-first": [0], "remove-last": [len(items) - 1], "remove-all": [2, 1, 0], "remove-then-add": [1]}[history]
            for i in which:
                if t == "emg":
                    a.removeSignal(items[i].label)
                elif t == "platCal":
                    a.remove_platform(i)
                elif t == "platData":
                    a.platforms = [x for j, x in enumerate(items) if j not in which]
                    break
                elif t in ("data3D", "force3D"):
                    a.tracks = [x for j, x in enumerate(items) if j not in which]
                    break
                elif t == "events":
                    del a.events[i]
                else:
                    del a.channels[i]
            if history == "remove-then-add":
                _fill_default(t, a, 1)
        elif history == "add-explicit-high" and t in ("emg", "platCal", "platData"):
            from .c16 import make_track

            if t == "emg":
                a.addSignal(make_track("emg", N, "high", 9), channel=900)
        elif history == "assign-empty":
            if t in ("data3D", "force3D"):
                a.tracks = []
            elif t == "platData":
                a.platforms = []
        return specs.lib_write(a) if t != "data2D" else b""
    ctx.must(earlier, f"elsewhere/{t}/earlier-history", f"a history ({history}) on an earlier {t} instance")
    ok, now = ctx.must(later_block, f"elsewhere/{t}/later", f"constructing and filling a {t} block after a history on another instance")
    if ok and now != reference:
        i = next((k for k in range(min(len(now), len(reference))) if now[k] != reference[k]), min(len(now), len(reference)))
        ctx.fail(f"elsewhere/{t}/later-block-depends-on-earlier-instances", f"{t}: a block made and filled ({origin}, default numbering) after another instance had gone through "
                                                                            f"'{history}' encodes differently from the same construction in a fresh module state (first "
                                                                            f"difference at byte {i} of {len(reference)})")
    ctx.case(case, True, labels=["elsewhere", t, history, origin])


def enum_reentrant(tier):
    for t in ("data3D", "force3D"):
        for k in (0, 1, 2):
            for inner in ("assign", "assign-empty", "add"):
                yield {"t": t, "at": k, "inner": inner}


def run_reentrant(ctx, case):
    """a.tracks = <lazy iterable> whose consumption performs an assignment / an add on ANOTHER block (a pipeline that fills two blocks from one
    generator): each block ends up with exactly the tracks it was given"""
    from .c16 import make_track

    t = case["t"]
    a, b = _bare(t), _bare(t)
    ta = [make_track(t, N, f"L{i}", i) for i in range(3)]
    tb = [make_track(t, N, f"R{i}", 10 + i) for i in range(2)]

    def source():
        for i, x in enumerate(ta):
            if i == case["at"]:
                if case["inner"] == "assign":
                    b.tracks = list(tb)
                elif case["inner"] == "assign-empty":
                    b.tracks = []
                else:
                    b.add_track(tb[0])
            yield x
    ok, _ = ctx.must(lambda: setattr(a, "tracks", source()), f"reentrant/{t}/assign", f"assigning a lazy iterable of valid tracks whose consumption edits another {t} block")
    if ok:
        got_a, got_b = [x.label for x in a.tracks], [x.label for x in b.tracks]
        want_b = {"assign": [x.label for x in tb], "assign-empty": [], "add": [tb[0].label]}[case["inner"]]
        if got_a != [x.label for x in ta] or got_b != want_b:
            ctx.fail(f"reentrant/{t}/tracks-mixed-up", f"{t}: a.tracks = <generator that performs '{case['inner']}' on block b before its item {case['at']}>: a holds {got_a} (given "
                                                       f"{[x.label for x in ta]}), b holds {got_b} (given {want_b})")
    ctx.case(case, True, labels=["reentrant", t, case["inner"]])


SUBS = [make(t) for t in TYPES]
SUBS.append(Sub("history-on-another-instance", run_elsewhere, kind="enum", enumerate=enum_elsewhere, shards=(2, 4),
                rule="7 block classes x 6 histories on an EARLIER instance (removals, explicit high channel, remove then add, assignment of an empty list) x the later block "
                     "constructed or decoded, then filled with default numbering: it encodes exactly as the same construction does in a fresh module state; finite, enumerated",
                nontrivial_required=False))
SUBS.append(Sub("reentrant-assignment", run_reentrant, kind="enum", enumerate=enum_reentrant, shards=(1, 2),
                rule="a.tracks = <lazy iterable> whose consumption assigns to / adds to ANOTHER block (3D data, force) before its item 0 / 1 / 2: each block ends up with exactly the "
                     "tracks it was given; finite, enumerated", nontrivial_required=False))
SUBS.append(Sub("one-source-two-constructors", run_sources, kind="enum", enumerate=enum_sources, shards=(2, 4),
                rule="one sequence object that is not a numpy array (list, tuple, array.array f/d, ctypes float / double array, memoryview cast to f, an object with __array__, "
                     "range, deque) handed to two separate Event constructor calls x both event types x (one event edited in place / a "
                     "decoded twin compared): the other event keeps its values and encoding; finite, enumerated", nontrivial_required=False))
SUBS.append(Sub("deep-mutation", run_deep, strategy=deep_strategy, budget=(300, 6000), shards=(2, 8),
                rule="all nine block classes: two instances made the same way (constructed / constructed empty / decoded from the same bytes / by the bare constructor with "
                     "nothing assigned afterwards); every list and writable array reachable from one is edited in place; the sibling and a block constructed afterwards "
                     "must be unchanged (encoding, and for bare constructors a structural snapshot of every reachable attribute)"))
SUBS.append(Sub("via-file", run_file, strategy=file_strategy, budget=(150, 4000), shards=(2, 8),
                rule="1..3 blocks written to a file; the same block read twice through get_block / [] / getters / blocks (same or separate contexts); one copy edited, the other and the file must not change"))
