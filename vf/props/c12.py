"""C12 - reserved, padding and after-terminator bytes never influence what is read."""
import io
import os

from hypothesis import strategies as st

from .. import capture, codec, container, env, poison, reftdf, specs
from ..core import Sub
from .c06 import sec_of

PROP = {
    "id": "C12",
    "level": "exploration",
    "technique": "metamorphic testing: take a valid encoding (library-written, reference-encoded, or a BTS capture block / the capture's header+table), overwrite every don't-care byte position (class map from the reference codec) with generated values, require identical decoded content and canonical re-encoding; plus exhaustive sweeps of single don't-care words through whole value ranges (finite enumeration); enumerated: lone words, word sweeps, filler matrix, store-again through the container next to the zero-filled twin, string reader x encodings, full-width names after filler",
    "level_text": ("Exploration with a metamorphic oracle: the reference codec classifies every byte of an encoding; all positions of class "
                   "reserved / pad256 / string-tail are overwritten with uniform random bytes, 0xFF, text that looks like a longer label, or "
                   "an adversarial alphabet (bytes undefined in cp1252, extra NULs). Content must not change and re-encoding must give the "
                   "canonical zero-filled bytes of the original size. Covers all nine block types, the file header and table entries, "
                   "and the seven capture blocks that contain don't-care bytes."),
    "level_note": "Trusted: reftdf's byte classification (checked against the capture: every byte of each block is classified exactly once).",
    "design_ref": "DESIGN.md section 3, C12",
    "rule": ("case = {spec, source lib|ref, filler kind+seed}; non-trivial = at least one don't-care byte actually changed value; classes: "
             "string-tail / reserved / pad256 / header; distinct by sha1 of the case"),
    "assumptions": [],
}

ADV = bytes([0x81, 0x8D, 0x8F, 0x90, 0x9D, 0x00, 0x41, 0xFF])
SMALL_INTS = [1, 1, 2, 3, 4, 7, 8, 16, 64, 65, 72, 100, 256, 288, 352, 640, 1000, 4096, 4160]


def selfcheck():
    capture.load()


def filler_bytes(kind, seed, n):
    out = bytearray()
    s = seed & 0xFFFFFFFF
    for i in range(n):
        h = specs.mix(s, i)
        if kind == "ff":
            out.append(0xFF)
        elif kind == "random":
            out.append((h >> 20) & 0xFF)
        elif kind == "text":
            out.append(((h >> 20) % 94) + 33)
        elif kind == "adversarial":
            out.append(ADV[(h >> 20) % len(ADV)])
        elif kind == "small-int":    # every 32-bit word becomes a small positive integer (looks like a count, a size or an offset)
            v = SMALL_INTS[specs.mix(s, i // 4) % len(SMALL_INTS)]
            out.append((v >> (8 * (i % 4))) & 0xFF)
        elif kind == "float-special":  # words that are NaN / inf when read as float32
            out.append((0x00, 0x00, 0xC0 if (s + i // 4) % 2 else 0x80, 0x7F if (s + i // 4) % 3 else 0xFF)[i % 4])
        elif kind == "negative-int":
            out.append(0xFF if i % 4 else 0xFE - (s % 3))
        elif kind == "cstring":    # a short, properly terminated piece of printable text at the start of the area, zeros behind it (looks like a note / a name)
            k = 1 + s % max(1, min(n - 1, 40))
            out.append(((h >> 20) % 94) + 33 if i < k and i < n - 1 else 0)
        elif kind == "wide":       # looks like the rest of a UTF-16 buffer: letter, NUL, letter, NUL, ...
            out.append(0 if i % 2 else 97 + (h >> 20) % 26)
        else:
            out.append(0)
    return bytes(out)


def scramble(data, spans, kind, seed, base=0):
    """overwrite don't-care positions; returns (bytes, {class: changed count}).
    kind 'x' overwrites all of them; kind 'partial:x' decides per 4-byte word (seeded) whether it is overwritten or
    left as it is, so that e.g. exactly one of two neighbouring pad words is non-zero."""
    if kind == "lone-word":
        words = [(s_ + 4 * j, c) for s_, e_, c in spans if c in reftdf.DONTCARE for j in range((e_ - s_) // 4)]
        b = bytearray(data)
        if not words:
            return bytes(b), {}
        pos, c = words[seed % len(words)]
        v = SMALL_INTS[(seed // len(words)) % len(SMALL_INTS)]
        new = v.to_bytes(4, "little")
        ch = {c: 1} if bytes(b[pos - base:pos - base + 4]) != new else {}
        b[pos - base:pos - base + 4] = new
        return bytes(b), ch
    partial = kind.startswith("partial:")
    base_kind = kind.split(":", 1)[1] if partial else kind
    b = bytearray(data)
    changed = {}
    k = 0
    for s, e, c in spans:
        if c not in reftdf.DONTCARE:
            continue
        fill = filler_bytes(base_kind, seed + k, e - s)
        k += 1
        for i in range(s, e):
            if partial and (specs.mix(seed, (i - s) // 4 * 7919 + k) >> 17) & 1:
                continue
            if b[i - base] != fill[i - s]:
                changed[c] = changed.get(c, 0) + 1
            b[i - base] = fill[i - s]
    return bytes(b), changed


def compare_decodes(ctx, t, fmt, original, scrambled, canonical, tag):
    with poison.poisoned(0x41):
        ok0, r0 = ctx.must(lambda: specs.lib_decode(t, fmt, original), f"{tag}/decode-original", f"decoding the unscrambled {t} encoding")
        ok1, r1 = ctx.must(lambda: specs.lib_decode(t, fmt, scrambled, b"\x55" * 8), f"{tag}/decode-scrambled",
                           f"decoding a {t} encoding that differs only in don't-care bytes")
    if not (ok0 and ok1):
        return
    if r1[1] != len(scrambled):
        ctx.fail(f"{tag}/consumed", f"{t}: consumed {r1[1]} of {len(scrambled)} bytes after scrambling don't-care bytes")
    a, b = specs.extract(r0[0]), specs.extract(r1[0])
    d = specs.first_diff(b, a)
    if d:
        ctx.fail(f"{tag}/content-changed-{specs.diff_class(d[0])}", f"{t}: {d[0]} reads {str(d[1])[:60]!r} after scrambling don't-care bytes, {str(d[2])[:60]!r} before")
    ok, w = ctx.must(lambda: specs.lib_write(r1[0]), f"{tag}/re-encode", f"re-encoding the decoded {t}")
    if ok and canonical is not None and w != canonical:
        i = next((k for k in range(min(len(w), len(canonical))) if w[k] != canonical[k]), min(len(w), len(canonical)))
        ctx.fail(f"{tag}/re-encode-not-canonical", f"{t}: re-encoding gives {len(w)} bytes (canonical {len(canonical)}), first difference at byte {i}")


def run_blocks(ctx, case):
    spec, source, (kind, seed) = case["spec"], case["source"], case["fill"]
    t = spec["t"]
    canonical, spans = reftdf.encode(spec, with_spans=True)
    if source == "lib":
        ok, blk = ctx.must(lambda: specs.build(spec, case.get("hints")), f"{t}/build", f"constructing a valid {t} block")
        if not ok:
            return
        ok, original = ctx.must(lambda: specs.lib_write(blk), f"{t}/encode", f"encoding a valid {t} block")
        if not ok:
            return
        if len(original) != len(canonical):
            ctx.case(case, False, labels=("skipped:length-differs-from-layout(C06)",))
            return
    else:
        original = canonical
    scr, changed = scramble(original, spans, kind, seed)
    compare_decodes(ctx, t, spec["format"], original, scr, canonical, t)
    ctx.case(case, bool(changed), labels=[t, f"source={source}", f"fill={kind}"] + [f"changed:{c}" for c in changed])


def blocks_strategy(tier):
    fills = st.tuples(st.sampled_from(["random", "random", "ff", "text", "adversarial", "adversarial", "small-int", "small-int", "float-special", "negative-int", "wide", "wide", "cstring", "cstring",
                                         "partial:small-int", "partial:small-int", "partial:random", "partial:ff", "partial:wide", "lone-word", "lone-word"]),
                      st.integers(0, 2 ** 32 - 1)).map(list)
    return st.sampled_from(specs.TYPES).flatmap(lambda t: st.fixed_dictionaries({
        "spec": specs.SPEC[t](tier, 0), "hints": specs.HINTS, "source": st.sampled_from(["lib", "ref"]), "fill": fills}))


# ---------------------------------------------------------------------------------------
def capture_strategy(tier):
    fills = st.tuples(st.sampled_from(["random", "ff", "text", "adversarial", "zero", "small-int", "float-special", "negative-int", "wide", "cstring", "partial:small-int", "partial:random"]), st.integers(0, 2 ** 32 - 1)).map(list)
    return st.fixed_dictionaries({"slot": st.sampled_from([0, 1, 3, 4, 5, 6, 7, 0, 1, 7]), "fill": fills})


def run_capture(ctx, case):
    cap = capture.load()
    b = cap["blocks"][case["slot"]]
    t = b["type"]
    kind, seed = case["fill"]
    original = cap["data"][b["offset"]:b["offset"] + b["size"]]
    scr, changed = scramble(original, b["spans"], kind, seed, base=b["offset"])
    canonical = reftdf.encode(b["spec"])
    compare_decodes(ctx, t, b["format"], original, scr, canonical, f"capture/{t}")
    ctx.case(case, bool(changed), labels=[f"capture:{t}", f"fill={kind}"] + [f"changed:{c}" for c in changed])


# ---------------------------------------------------------------------------------------
def container_strategy(tier):
    from .c06 import comments, dates31

    @st.composite
    def cases(draw):
        n = draw(st.sampled_from([1, 2, 3, 5, 14]))
        types = draw(st.lists(st.sampled_from(specs.TYPES), max_size=min(n, 4), unique=True))
        blocks = [{"spec": draw(specs.SPEC[t]("quick")), "comment": draw(comments), "cdate": draw(dates31), "mdate": draw(dates31),
                   "adate": draw(dates31)} for t in types]
        return {"N": n, "blocks": blocks, "dates": draw(st.lists(dates31, min_size=3, max_size=3)),
                "source": draw(st.sampled_from(["generated", "generated", "capture-table"])),
                "fill": [draw(st.sampled_from(["random", "ff", "text", "adversarial", "small-int", "float-special", "negative-int", "wide", "cstring", "partial:small-int", "partial:small-int",
                                               "partial:random", "partial:ff"])), draw(st.integers(0, 2 ** 32 - 1))]}

    return cases()


def _table_view(path):
    from basictdf import Tdf

    with Tdf(path) as t:
        view = {"version": int(t.version), "nEntries": int(t.nEntries), "len": len(t),
                "dates": [sec_of(t.creation_date), sec_of(t.last_modification_date), sec_of(t.last_access_date)],
                "entries": [{"type": e.type.value, "format": int(e.format), "offset": int(e.offset), "size": int(e.size),
                             "cdate": sec_of(e.creation_date), "mdate": sec_of(e.last_modification_date),
                             "adate": sec_of(e.last_access_date), "comment": e.comment} for e in t.entries]}
        blocks = []
        for i, e in enumerate(t.entries):
            if e.type.value in reftdf.CODE_TYPE:
                blocks.append(specs.extract(t.get_block(i)))
        view["blocks"] = blocks
    return view


def run_container(ctx, case):
    kind, seed = case["fill"]
    if case["source"] == "capture-table":
        cap = capture.load()
        n = cap["parsed"]["nEntries"]
        image = cap["data"][:64 + 288 * n]  # header + table only; blocks are not read below
        spans = cap["parsed"]["spans"]
        # keep it cheap: truncate to the table and mark all entries unused is not legal - instead keep the
        # full file only for the small blocks: use offsets as they are but do not decode blocks
        image = cap["data"]
        decode_blocks = False
    else:
        blocks = [{"type": reftdf.TYPE_CODE[b["spec"]["t"]], "format": b["spec"]["format"], "payload": reftdf.encode(b["spec"]),
                   "comment": b["comment"], "cdate": b["cdate"], "mdate": b["mdate"], "adate": b["adate"]} for b in case["blocks"]]
        image, spans = reftdf.build_image(case["N"], blocks, dates=case["dates"], with_spans=True)
        decode_blocks = True
    scr, changed = scramble(image, spans, kind, seed)
    d = env.fresh_dir()
    try:
        views = []
        for name, img in (("orig", image), ("scr", scr)):
            path = os.path.join(d, name + ".tdf")
            with open(path, "wb") as f:
                f.write(img)
            if decode_blocks:
                ok, v = ctx.must(lambda: _table_view(path), f"container/read-{name}", f"reading a well-formed file ({name})")
            else:
                from basictdf import Tdf

                def hdr():
                    with Tdf(path) as t:
                        return {"version": int(t.version), "nEntries": int(t.nEntries), "len": len(t),
                                "entries": [{"type": e.type.value, "format": int(e.format), "offset": int(e.offset), "size": int(e.size),
                                             "cdate": sec_of(e.creation_date), "mdate": sec_of(e.last_modification_date),
                                             "adate": sec_of(e.last_access_date), "comment": e.comment} for e in t.entries]}
                ok, v = ctx.must(hdr, f"container/read-{name}", f"reading the capture's header and table ({name})")
            if not ok:
                return
            views.append(v)
        dd = specs.first_diff(views[1], views[0])
        if dd:
            ctx.fail(f"container/content-changed-{specs.diff_class(dd[0])}", f"file: {dd[0]} reads {str(dd[1])[:60]!r} after scrambling "
                                                                             f"reserved words / comment tails, {str(dd[2])[:60]!r} before")
        if decode_blocks:
            # "the content returned for a file" includes the verdict of the library's own comparison: the two files have equal content
            from basictdf import Tdf

            def same():
                with Tdf(os.path.join(d, "orig.tdf")) as a, Tdf(os.path.join(d, "scr.tdf")) as b:
                    return bool(a == b), bool(b == a)
            ok, eq = ctx.must(same, "container/compare", "comparing a file with its copy that differs only in don't-care bytes")
            if ok and eq != (True, True):
                ctx.fail("container/files-compare-unequal", f"two files that differ only in don't-care bytes (reserved words, pad words, comment tails; filler {kind}) "
                                                            f"compare unequal (a==b: {eq[0]}, b==a: {eq[1]})")
    finally:
        env.rmdir(d)
    ctx.case(case, bool(changed), labels=[f"source={case['source']}", f"fill={kind}", f"N={case['N']}"] + [f"changed:header/{c}" for c in changed])


def enum_lone(tier):
    """every don't-care word of the header and of the table of two fixed images, one at a time, with each plausible small value"""
    from .c14 import _minimal

    ev = {"t": "events", "format": 1, "startTime": 0, "events": [{"label": "e", "type": 0, "values": [0x3F800000]}]}
    d3 = dict(_minimal("data3D"))
    for n, specs_ in ((3, [ev, d3]), (14, [ev, d3, _minimal("emg")])):
        blocks = [{"spec": s_, "comment": "c", "cdate": 1, "mdate": 2, "adate": 3} for s_ in specs_]
        # header: 2 + 5 reserved words; per entry: the pad word and the first two words of the comment tail
        nwords = 7 + n * 3
        for w in range(nwords):
            for vi in range(len(SMALL_INTS)):
                yield {"N": n, "blocks": blocks, "dates": [5, 6, 7], "source": "generated", "fill": ["lone-header-word", w * 100 + vi]}


def run_lone(ctx, case):
    """container-level: ONE reserved / pad / tail word set, everything else as written"""
    w, vi = divmod(case["fill"][1], 100)
    n = case["N"]
    blocks = [{"type": reftdf.TYPE_CODE[b["spec"]["t"]], "format": b["spec"]["format"], "payload": reftdf.encode(b["spec"]),
               "comment": b["comment"], "cdate": b["cdate"], "mdate": b["mdate"], "adate": b["adate"]} for b in case["blocks"]]
    image = bytearray(reftdf.build_image(n, blocks, dates=case["dates"]))
    if w < 2:
        pos = 24 + 4 * w
    elif w < 7:
        pos = 44 + 4 * (w - 2)
    else:
        e, k = divmod(w - 7, 3)
        base = 64 + 288 * e
        pos = base + 28 if k == 0 else base + 32 + 4 * k   # pad word | comment bytes 4..7 / 8..11 (tail of a 1-char comment)
    scr = bytearray(image)
    scr[pos:pos + 4] = SMALL_INTS[vi % len(SMALL_INTS)].to_bytes(4, "little")
    d = env.fresh_dir()
    try:
        views = []
        for name, img in (("orig", image), ("scr", scr)):
            path = os.path.join(d, name + ".tdf")
            with open(path, "wb") as f:
                f.write(bytes(img))
            ok, v = ctx.must(lambda: _table_view(path), f"container-lone/read-{name}", f"reading a well-formed file ({name}) with one don't-care word set to {SMALL_INTS[vi % len(SMALL_INTS)]}")
            if not ok:
                return
            views.append(v)
        dd = specs.first_diff(views[1], views[0])
        if dd:
            ctx.fail(f"container-lone/content-changed-{specs.diff_class(dd[0])}", f"file: {dd[0]} reads {str(dd[1])[:60]!r} after setting the don't-care word at byte {pos} "
                                                                                  f"to {SMALL_INTS[vi % len(SMALL_INTS)]}, {str(dd[2])[:60]!r} before")
    finally:
        env.rmdir(d)
    ctx.case(case, True, labels=[f"N={n}", "lone-word:" + ("header" if w < 7 else "entry")])


# ---------------------------------------------------------------------------------------
# one don't-care WORD swept through a whole range of values (a reader that gives a meaning to particular numbers - a code page, a
# version, a count - hides from random fillers: 32 bits of uniform noise never spell 1251)
NONASCII = "M\u00e9dio \u20ac \u00f1\u00df"
SWEEP_SPECIALS = [2 ** k + d for k in range(12, 32) for d in (-1, 0, 1)] + [0x7FFFFFFF, 0x80000000, 0xFFFFFFFF, 0xFFFFFFFE, 65001, 1200, 1201, 20127, 28591, 28605, 10000]
SWEEP_SPECIALS = [v for v in SWEEP_SPECIALS if 0 <= v <= 0xFFFFFFFF]


def _sweep_block_specs(long_labels=False):
    """fixed blocks with two items; texts are non-ASCII and END IN A SPACE (a reader that trims under some condition shows), or fill
    the field up to 200 / 254 characters (the terminator sits in the last quarter of the field)"""
    from .c07 import LABELLED, labelled_spec
    from .c14 import _minimal

    out = []
    for t in specs.TYPES:
        spec = labelled_spec(t, 2) if t in LABELLED or t in ("platData", "data2D") else _minimal(t)
        spec = __import__("copy").deepcopy(spec)
        for key in ("tracks", "signals", "events", "plats", "channels"):
            for it in spec.get(key) or []:
                for lk, w in (("label", 256), ("name", 32), ("lens", 32), ("type", 32)):
                    if isinstance(it.get(lk), str):
                        it[lk] = (NONASCII + " ")[:w - 1] if not long_labels else (("L" * 300)[:(200 if lk == "label" else 20)] + "\u00e9 " + "x" * 300)[:w - 2 - len(out) % 3] + " "
        out.append(spec)
    return out


def enum_aligned(tier):
    """where the terminator of a text field falls relative to the read-ahead buffer of the file object is a matter of byte offsets: sweep
    them ALL. An opaque block of p bytes in front of a labelled block, p = 0 .. 8191 (every phase of 4 KiB and 8 KiB buffers; thorough:
    0 .. 65535), read through the file interface with 0xff behind every terminator; and entry comments of every length in every slot of
    a 32-slot table. One case = 256 offsets."""
    from .c07 import LABELLED

    top = 8192 if tier == "quick" else 65536
    for t in sorted(LABELLED):
        for lo in range(0, top, 256):
            yield {"t": t, "lo": lo, "hi": lo + 256}
    for slot in range(32):
        yield {"t": "entry-comment", "slot": slot}


def run_aligned(ctx, case):
    from basictdf import Tdf
    from basictdf.tdfBlock import BlockType

    from .c07 import LABELLED, labelled_spec

    t = case["t"]
    d = env.fresh_dir()
    n_read = 0
    try:
        path = os.path.join(d, "a.tdf")
        if t == "entry-comment":
            slot = case["slot"]
            N = 32
            codes = [c for c in range(1, 17)] + [c for c in range(1, 17)]
            for L in range(0, 256):
                text = "c" * L
                blocks = [{"type": 13, "format": 1, "payload": b"", "comment": "", "cdate": 1, "mdate": 2, "adate": 3} for _ in range(slot)]
                blocks.append({"type": 14, "format": 1, "payload": b"", "comment": text, "cdate": 1, "mdate": 2, "adate": 3})
                image, spans = reftdf.build_image(N, blocks, with_spans=True)
                scr, _ = scramble(image, spans, "ff", 1)
                with open(path, "wb") as f:
                    f.write(scr)

                def read():
                    with Tdf(path) as tf:
                        return tf.entries[slot].comment
                ok, got = ctx.must(read, "aligned/read-entry", f"reading the table of a file whose entry {slot} has a comment of {L} chars and 0xff behind every terminator")
                if not ok:
                    return
                n_read += 1
                if got != text:
                    ctx.fail("aligned/entry-comment-changed", f"entry {slot}: comment of {L} chars (terminator at file offset {64 + 288 * slot + 32 + L}) reads as {len(got)} chars "
                                                              f"with 0xff behind the terminator")
            ctx.case(case, True, labels=["aligned:entry-comment"])
            return
        w = 32 if t == "optical" else 256
        spec = labelled_spec(t, 3)
        key = "name" if t == "optical" else "label"
        for k, it in enumerate(spec[LABELLED[t]]):
            it[key] = "T" * (1 + 7 * k)
        want = specs.canon(spec)
        payload = reftdf.encode(spec)
        for p in range(case["lo"], case["hi"]):
            blocks = [{"type": 13, "format": 1, "payload": b"\x00" * p, "comment": "pad", "cdate": 1, "mdate": 2, "adate": 3},
                      {"type": reftdf.TYPE_CODE[t], "format": spec["format"], "payload": payload, "comment": "x", "cdate": 1, "mdate": 2, "adate": 3}]
            image, spans = reftdf.build_image(3, blocks, with_spans=True)
            scr, _ = scramble(image, spans, "ff", 1)
            with open(path, "wb") as f:
                f.write(scr)

            def read():
                with Tdf(path) as tf:
                    return specs.extract(tf.get_block(BlockType(reftdf.TYPE_CODE[t])))
            ok, got = ctx.must(read, f"aligned/read-{t}", f"reading a {t} block stored at file offset {64 + 288 * 3 + p} with 0xff behind every terminator")
            if not ok:
                return
            n_read += 1
            dd = specs.first_diff(got, want)
            if dd:
                ctx.fail(f"aligned/{t}/content-changed", f"{t} block stored at file offset {64 + 288 * 3 + p}: {dd[0]} reads {str(dd[1])[:40]!r} with 0xff behind the terminators, "
                                                         f"the bytes say {str(dd[2])[:40]!r}")
    finally:
        env.rmdir(d)
    ctx.case(case, True, labels=[f"aligned:{t}"])


ALL_FILLS = ["random", "ff", "text", "adversarial", "small-int", "float-special", "negative-int", "wide", "cstring", "partial:small-int", "partial:random", "partial:ff",
             "partial:wide", "partial:cstring"]


def enum_fill_matrix(tier):
    """every filler kind x a few seeds x every block type (fixed blocks with two labelled items, non-ASCII text) x both sources: what the
    random draw of (type, filler) pairs covers only on average is covered for certain"""
    for spec in _sweep_block_specs() + _sweep_block_specs(long_labels=True):
        for kind in ALL_FILLS:
            for seed in ((1, 2, 3, 4, 5, 6) if kind.endswith("cstring") else (1, 2)):
                for source in ("ref", "lib"):
                    yield {"spec": spec, "hints": None, "source": source, "fill": [kind, seed]}


def enum_sweep(tier):
    top = 4096 if tier == "quick" else 65536
    step = 512
    for lo in range(0, 65536 if True else top, step):   # table entries are cheap: always the full 16-bit range
        yield {"what": "entry", "lo": lo, "hi": lo + step}
    yield {"what": "entry", "values": SWEEP_SPECIALS}
    for spec in _sweep_block_specs():
        _, spans = reftdf.encode(spec, with_spans=True)
        words = [s_ + 4 * j for s_, e_, c in spans if c in ("reserved",) for j in range((e_ - s_) // 4)]
        for wi, pos in enumerate(words[:6]):
            for lo in range(0, top, step):
                yield {"what": "block", "spec": spec, "pos": pos, "lo": lo, "hi": lo + step}
            yield {"what": "block", "spec": spec, "pos": pos, "values": SWEEP_SPECIALS}


def run_sweep(ctx, case):
    values = case.get("values") or range(case["lo"], case["hi"])
    if case["what"] == "entry":
        from basictdf.basictdf import TdfEntry

        en = {"type": 5, "format": 1, "offset": 4096, "size": 77, "cdate": 1_600_000_000, "mdate": 1_600_000_001, "adate": 1_600_000_002, "comment": NONASCII}
        canonical = reftdf.encode_entry(en)
        pos = 28
        for v in values:
            raw = canonical[:pos] + int(v).to_bytes(4, "little") + canonical[pos + 4:]
            ok, got = ctx.must(lambda: TdfEntry._build(io.BytesIO(raw)), "sweep/entry/decode", f"decoding a table entry whose pad word is {v}")
            if not ok:
                return
            g = {"type": got.type.value, "format": int(got.format), "offset": int(got.offset), "size": int(got.size), "cdate": sec_of(got.creation_date),
                 "mdate": sec_of(got.last_modification_date), "adate": sec_of(got.last_access_date), "comment": got.comment}
            d = specs.first_diff(g, en)
            if d:
                ctx.fail(f"sweep/entry/content-changed-{specs.diff_class(d[0])}", f"table entry: {d[0]} reads {str(d[1])[:60]!r} when the pad word is {v}, {str(d[2])[:60]!r} when it is 0")
            b = io.BytesIO()
            got._write(b)
            if b.getvalue() != canonical:
                ctx.fail("sweep/entry/re-encode-not-canonical", f"table entry decoded with pad word {v} re-encodes to different bytes")
        ctx.case(case, True, labels=["sweep:entry-pad-word"])
        return
    spec, pos = case["spec"], case["pos"]
    t = spec["t"]
    canonical = reftdf.encode(spec)
    want = specs.canon(spec)
    for v in values:
        raw = canonical[:pos] + int(v).to_bytes(4, "little") + canonical[pos + 4:]
        ok, res = ctx.must(lambda: specs.lib_decode(t, spec["format"], raw, b"\x55" * 8), f"sweep/{t}/decode", f"decoding a {t} block whose reserved word at byte {pos} is {v}")
        if not ok:
            return
        if res[1] != len(raw):
            ctx.fail(f"sweep/{t}/consumed", f"{t}: consumed {res[1]} of {len(raw)} bytes when the reserved word at byte {pos} is {v}")
        d = specs.first_diff(specs.extract(res[0]), want)
        if d:
            ctx.fail(f"sweep/{t}/content-changed-{specs.diff_class(d[0])}", f"{t}: {d[0]} reads {str(d[1])[:60]!r} when the reserved word at byte {pos} is {v}")
        if specs.lib_write(res[0]) != canonical:
            ctx.fail(f"sweep/{t}/re-encode-not-canonical", f"{t}: decoded with reserved word {v} at byte {pos}, the block re-encodes to different bytes")
    ctx.case(case, True, labels=[f"sweep:{t}"])


# ---------------------------------------------------------------------------------------
def enum_through_container(tier):
    """each block type (two labelled items, non-ASCII text; short and long labels) in a file, every don't-care byte of the block AND of the
    header / table overwritten, then stored again through the container - the read-and-store-again idiom: tdf.x = tdf.x, replace_block(block),
    remove_block + add_block - next to the same on the zero-filled twin"""
    for spec in _sweep_block_specs() + _sweep_block_specs(long_labels=True):
        name = spec["t"]
        vias = ["replace", "remove-add"] + (["setter"] if name in container.SETTERS and name in container.GETTERS else [])
        for kind in ("random", "ff", "text", "small-int", "cstring", "partial:random"):
            for via in vias:
                for behind in (False, True):
                    yield {"spec": spec, "fill": [kind, 1 + len(via)], "via": via, "behind": behind}


def run_through_container(ctx, case):
    from basictdf import Tdf
    from basictdf.tdfBlock import BlockType

    spec, (kind, seed), via = case["spec"], case["fill"], case["via"]
    name = spec["t"]
    code = reftdf.TYPE_CODE[name]
    canonical, bspans = reftdf.encode(spec, with_spans=True)
    scr_block, changed = scramble(canonical, bspans, kind, seed)
    d = env.fresh_dir()
    try:
        stored = {}
        for twin, payload in (("zero-filled", canonical), ("scrambled", scr_block)):
            blocks = [{"type": code, "format": spec["format"], "payload": payload, "comment": "the block", "cdate": 5, "mdate": 6, "adate": 7}]
            if case["behind"]:
                blocks.append({"type": 14, "format": 1, "payload": bytes(range(200)), "comment": "something behind it", "cdate": 1, "mdate": 2, "adate": 3})
            image, spans = reftdf.build_image(4, blocks, dates=[1, 2, 3], with_spans=True)
            if twin == "scrambled":
                image, ch2 = scramble(image, spans, kind, seed + 1)
            path = os.path.join(d, twin + ".tdf")
            with open(path, "wb") as f:
                f.write(image)
            # every table entry decoded and encoded again on its own, nothing of it looked at in between: canonical bytes either way
            from basictdf.basictdf import TdfEntry

            def entries_again():
                out_ = []
                for i_ in range(4):
                    e_ = TdfEntry._build(io.BytesIO(image[64 + 288 * i_:64 + 288 * (i_ + 1)]))
                    s_ = io.BytesIO()
                    e_._write(s_)
                    out_.append(s_.getvalue())
                return out_
            ok_e, enc_e = ctx.must(entries_again, f"{name}/entries/decode-encode-{twin}", f"decoding and re-encoding the table entries of the {twin} file")
            if ok_e:
                stored.setdefault("entries", {})[twin] = enc_e

            def again():
                t = Tdf(path)
                with t.allow_write() as w:
                    if via == "setter":
                        setattr(w, container.SETTERS[name], getattr(w, container.GETTERS[name]))
                    elif via == "replace":
                        w.replace_block(w.get_block(BlockType(code)))
                    else:
                        blk = w.get_block(BlockType(code))
                        w.remove_block(BlockType(code))
                        w.add_block(blk, "the block")
            ok, _ = ctx.must(again, f"{name}/{via}/store-again-{twin}", f"storing the {name} block just decoded from the file again ({via}, {twin} file)")
            if not ok:
                return
            data = open(path, "rb").read()
            parsed = reftdf.parse_container(data)
            ent = [e for _, e in reftdf.live(parsed) if e["type"] == code]
            if len(ent) != 1:
                ctx.fail(f"{name}/{via}/block-count", f"after storing the {name} block again ({via}, {twin} file) the table holds {len(ent)} blocks of that type")
            stored[twin] = data[ent[0]["offset"]:ent[0]["offset"] + ent[0]["size"]]
            # the block sat in slot 0: every slot of the table was written again by the store-again - text fields and pad words are canonical
            stored.setdefault("table", {})[twin] = [(data[64 + 288 * i_ + 28:64 + 288 * i_ + 32], data[64 + 288 * i_ + 32:64 + 288 * (i_ + 1)]) for i_ in range(4)]
        ea, eb = stored.get("entries", {}).get("zero-filled"), stored.get("entries", {}).get("scrambled")
        if ea is not None and eb is not None and ea != eb:
            i_ = next(k for k in range(4) if ea[k] != eb[k])
            j_ = next(k for k in range(288) if ea[i_][k] != eb[i_][k])
            ctx.fail(f"{name}/entries/re-encode-depends-on-dont-care-bytes", f"table entry {i_} of two files that differ only in don't-care bytes (filler {kind}): decoded and encoded "
                                                                             f"again (nothing looked at in between) the two encodings differ at byte {j_} of the entry")
        ta, tb = stored["table"]["zero-filled"], stored["table"]["scrambled"]
        if ta != tb:
            i_ = next(k for k in range(4) if ta[k] != tb[k])
            ctx.fail(f"{name}/{via}/rewritten-entries-depend-on-dont-care-bytes", f"{name}: after `{via}` of the first block every table entry was written again; entry {i_} of the file "
                                                                                  f"that had filler ({kind}) in its don't-care bytes differs from the zero-filled twin's in its "
                                                                                  f"{'pad word' if ta[i_][0] != tb[i_][0] else 'comment field'}")
        a, b = stored["zero-filled"], stored["scrambled"]
        if a != b:
            i = next((k for k in range(min(len(a), len(b))) if a[k] != b[k]), min(len(a), len(b)))
            ctx.fail(f"{name}/{via}/stored-again-bytes-depend-on-dont-care-bytes",
                     f"{name}: two files that differ only in don't-care bytes (filler {kind}); after `{via}` of the block just decoded from each, the stored blocks differ "
                     f"({len(a)} vs {len(b)} bytes, first difference at byte {i}): the re-encoding is not identical")
        if len(b) != len(canonical):
            ctx.fail(f"{name}/{via}/stored-again-size", f"{name}: the block stored again has {len(b)} bytes, the original {len(canonical)}")
    finally:
        env.rmdir(d)
    ctx.case(case, bool(changed), labels=[name, f"via={via}", f"fill={kind}", "behind" if case["behind"] else "last"])


def enum_full_width(tier):
    """optical-setup names that fill their 32-byte field completely (no terminator - the reader takes the whole field as text), in files whose
    OTHER text fields (the 256-byte entry comments, read first) carry filler behind their terminators"""
    for kind in ALL_FILLS:
        for which in ("lens", "type", "name", "all"):
            for n_ch in (1, 3):
                for access in ("getter-loop", "get_block", "blocks"):
                    yield {"fill": [kind, 3], "which": which, "channels": n_ch, "access": access}


def run_full_width(ctx, case):
    from basictdf import Tdf
    from basictdf.tdfBlock import BlockType

    kind, seed = case["fill"]
    names = {"lens": "L" * 32, "type": "T" * 31 + "\u00e9", "name": "N" * 32}
    chans = []
    for i in range(case["channels"]):
        c = {"index": i, "lens": f"lens{i}", "type": f"type{i}", "name": f"cam{i}", "vp": [0, 0, 10 + i, 20 + i]}
        chans.append(c)
    payload = bytearray(reftdf.encode({"t": "optical", "format": 1, "channels": chans}))
    want = []
    for i, c in enumerate(chans):
        base = 8 + 120 * i + 8
        for j, key in enumerate(("lens", "type", "name")):
            if case["which"] in (key, "all") and (i + j) % 2 == 0 or case["channels"] == 1 and case["which"] in (key, "all"):
                text = names[key][:-1] + str(i)[-1]
                payload[base + 32 * j:base + 32 * (j + 1)] = text.encode("cp1252")      # 32 bytes of text, no terminator
                c[key] = text
        want.append((c["lens"], c["type"], c["name"]))
    blocks = [{"type": reftdf.TYPE_CODE["events"], "format": 1, "payload": reftdf.encode(_sweep_block_specs()[0]) if _sweep_block_specs()[0]["t"] == "events" else
               reftdf.encode({"t": "events", "format": 1, "startTime": 0, "events": []}), "comment": "short", "cdate": 1, "mdate": 2, "adate": 3},
              {"type": reftdf.TYPE_CODE["optical"], "format": 1, "payload": bytes(payload), "comment": "the cameras", "cdate": 1, "mdate": 2, "adate": 3}]
    image, spans = reftdf.build_image(6, blocks, dates=[1, 2, 3], with_spans=True)
    scr, changed = scramble(image, spans, kind, seed)
    d = env.fresh_dir()
    try:
        got = {}
        for twin, img in (("zero-filled", image), ("scrambled", scr)):
            path = os.path.join(d, twin + ".tdf")
            with open(path, "wb") as f:
                f.write(img)

            def read():
                with Tdf(path) as t:
                    if case["access"] == "get_block":
                        b = t.get_block(BlockType(reftdf.TYPE_CODE["optical"]))
                    elif case["access"] == "blocks":
                        b = [x for x in t.blocks if x.type.value == reftdf.TYPE_CODE["optical"]][0]
                    else:
                        b = [t.get_block(i) for i in range(len(t))][1]
                    return [(c.lens_name, c.camera_type, c.camera_name) for c in b.channels]
            ok, r = ctx.must(read, f"full-width/read-{twin}", f"reading optical-setup names that fill their 32-byte fields, from the {twin} file")
            if not ok:
                return
            got[twin] = r
        if got["scrambled"] != got["zero-filled"]:
            i = next(k for k in range(len(want)) if got["scrambled"][k] != got["zero-filled"][k])
            ctx.fail("full-width/names-depend-on-other-fields-filler", f"optical channel {i}: names read {got['scrambled'][i]!r} from the file whose entry comments carry filler "
                                                                       f"({kind}) behind their terminators, {got['zero-filled'][i]!r} from the zero-filled twin")
        if got["zero-filled"] != want:
            i = next(k for k in range(len(want)) if got["zero-filled"][k] != want[k])
            ctx.fail("full-width/names-differ-from-stored", f"optical channel {i}: names read {got['zero-filled'][i]!r}, the fields hold {want[i]!r}")
    finally:
        env.rmdir(d)
    ctx.case(case, bool(changed), labels=["full-width-names", case["which"], f"fill={kind}", case["access"]])


READER_ENCODINGS = [None, "windows-1252", "cp1252", "latin-1", "iso8859-15", "ascii", "cp437", "mac-roman", "utf-8", "utf8", "UTF-8", "U8", "utf_8"]


def enum_reader(tier):
    """the fixed-width string reader itself (BTSString.read / bread) with each value of its public `encoding` argument under which the
    terminator is a single zero byte: the text is what lies in front of the first NUL, whatever follows it"""
    for enc in READER_ENCODINGS:
        for size in (1, 2, 4, 32, 256):
            for how in ("read", "bread", "read-positional"):
                yield {"encoding": enc, "size": size, "how": how}


def run_reader(ctx, case):
    import io

    from basictdf.tdfTypes import BTSString

    enc, size, how = case["encoding"], case["size"], case["how"]
    codec = enc or "windows-1252"
    texts = ["", "a", "Ab 1", "label_07", "x" * (size - 1), "x" * size]
    if codec.lower().replace("_", "-") not in ("ascii",):
        texts += ["\u00e9t\u00e9", "\u00fc" * max(0, (size - 1) // 2)]
    n = 0
    for text in texts:
        try:
            raw = text.encode(codec)
        except UnicodeEncodeError:
            continue
        if len(raw) > size or b"\x00" in raw:
            continue
        room = size - len(raw) - 1
        if room < 0:
            fields = {"no-terminator": raw}
        else:
            fields = {"zeros": raw + b"\x00" + b"\x00" * room}
            for kind in ("ff", "random", "text", "cstring", "float-special", "negative-int", "adversarial", "wide"):
                for seed in (1, 2):
                    fields[f"{kind}/{seed}"] = raw + b"\x00" + filler_bytes(kind, seed, room)
            fields["utf8-lead-byte"] = raw + b"\x00" + (b"\xc3" * room)
            fields["utf8-continuation"] = raw + b"\x00" + (b"\x80\xbf" * room)[:room]
            fields["cp1252-undefined"] = raw + b"\x00" + (b"\x81\x8d\x8f\x90\x9d" * room)[:room]
        for fname, field in fields.items():
            def call():
                if how == "bread":
                    f = io.BytesIO(b"\x11" * 3 + field + b"\x22" * 3)
                    f.seek(3)
                    r = BTSString.bread(f, size) if enc is None else BTSString.bread(f, size, encoding=enc)
                    return r, f.tell() - 3
                if how == "read-positional" and enc is not None:
                    return BTSString.read(size, field, enc), size
                return (BTSString.read(size, field) if enc is None else BTSString.read(size, field, encoding=enc)), size
            n += 1
            ctx.evaluations += 1
            ok, res = ctx.must(call, f"reader/{how}/raises-with-filler-{fname.split('/')[0]}", f"BTSString.{how}(size={size}, encoding={enc!r}) of {text!r} + NUL + {fname} filler")
            if not ok:
                continue
            got, used = res
            if got != text:
                ctx.fail(f"reader/{how}/text-depends-on-filler-{fname.split('/')[0]}", f"BTSString.{how}(size={size}, encoding={enc!r}): field holding {text!r}, a NUL and "
                                                                                      f"{fname} filler reads {got[:40]!r}")
            if used != size:
                ctx.fail(f"reader/{how}/consumed", f"BTSString.bread(size={size}) consumed {used} bytes")
    ctx.case(case, n > 6, labels=[f"encoding={enc}", f"size={size}", how])


SUBS = [
    Sub("through-the-container", run_through_container, kind="enum", enumerate=enum_through_container, shards=(8, 16),
        rule="nine block types (two labelled items, non-ASCII text, short and long labels) in a 4-slot file, every don't-care byte of block, header and table overwritten with "
             "6 filler kinds, then stored again through the container (tdf.x = tdf.x / replace_block(get_block) / remove_block + add_block; last block or one behind it) "
             "next to the same on the zero-filled twin: the stored blocks are identical and of the original size; finite, enumerated", nontrivial_required=False),
    Sub("full-width-names", run_full_width, kind="enum", enumerate=enum_full_width, shards=(4, 8),
        rule="files whose optical-setup names fill their 32-byte fields completely (no terminator; lens / type / name / all, 1 or 3 cameras, non-ASCII last character) and whose "
             "entry comments - read before any block - carry each of 14 fillers behind their terminators, read through get_block / .blocks / a loop over all slots: the names "
             "are the 32 characters stored, the same as from the zero-filled twin; finite, enumerated", nontrivial_required=False),
    Sub("string-reader-encodings", run_reader, kind="enum", enumerate=enum_reader, shards=(4, 8),
        rule="BTSString.read / bread called directly with each value of the public encoding argument under which the terminator is one zero byte (default, cp1252 spellings, "
             "latin-1, iso8859-15, ascii, cp437, mac-roman, five spellings of utf-8) x field sizes {1,2,4,32,256} x texts (empty, short, size-1, size, non-ASCII) x 19 "
             "fillers behind the terminator (incl. invalid UTF-8, cp1252-undefined bytes): the text in front of the first NUL comes back; finite, enumerated",
        nontrivial_required=False),
    Sub("container-lone-word", run_lone, kind="enum", enumerate=enum_lone, shards=(8, 16),
        rule="two fixed images (N=3, N=14): each reserved header word, each entry pad word and the first comment-tail words set ONE AT A TIME to each of 19 plausible small values; finite, enumerated"),
    Sub("pad-word-sweep", run_sweep, kind="enum", enumerate=enum_sweep, shards=(8, 16),
        rule="one don't-care word at a time swept through a whole range: the table entry's pad word through all of 0..65535 plus 2^k-1, 2^k, 2^k+1 and other "
             "numbers with a meaning elsewhere (code pages), with non-ASCII text in the entry; each reserved word of each block type's header through 0..4095 (quick) / "
             "0..65535 (thorough) plus the specials, with non-ASCII labels; finite, enumerated (one case = 512 values)"),
    Sub("terminators-at-buffer-boundaries", run_aligned, kind="enum", enumerate=enum_aligned, shards=(8, 16),
        rule="files read through the file interface (buffered file object) with 0xff behind every terminator: a labelled block of each of 6 types behind an opaque block of "
             "p bytes, for EVERY p in 0..8191 (thorough 0..65535), and entry comments of every length 0..255 in every slot of a 32-slot table; finite, enumerated "
             "(one case = 256 offsets)", nontrivial_required=False),
    Sub("filler-matrix", run_blocks, kind="enum", enumerate=enum_fill_matrix, shards=(8, 16),
        rule="nine block types (fixed blocks, two labelled items, non-ASCII text) x 14 filler kinds x 2 (6 for the terminated-text filler) seeds x source {library-written, "
             "reference-written}; finite, enumerated", nontrivial_required=False),
    Sub("blocks", run_blocks, strategy=blocks_strategy, budget=(1800, 40000), shards=(4, 16),
        rule="all nine block types, library-written and reference-encoded; every don't-care byte overwritten"),
    Sub("capture-blocks", run_capture, strategy=capture_strategy, budget=(24, 400), shards=(4, 16),
        rule="the 7 BTS capture blocks that contain don't-care bytes (already holding BTS's own garbage) with all of them overwritten"),
    Sub("container", run_container, strategy=container_strategy, budget=(150, 4000), shards=(2, 16),
        rule="generated file images (N in {1,2,3,5,14}, 0..4 blocks) and the capture's header+table: reserved header words, entry pad words, comment tails overwritten"),
]


def _adapter(spec, raw, tail):
    kinds = ["random", "ff", "text", "adversarial", "small-int", "float-special", "negative-int", "wide", "partial:small-int", "partial:random"]
    t = bytes(tail) + b"\x00" * 8
    return {"spec": spec, "source": "ref", "fill": [kinds[t[0] % 10], int.from_bytes(t[1:5], "little")]}


SUBS += [Sub(f"fuzz:{t}", run_blocks, kind="fuzz", fuzz_target=("spec", t, _adapter), budget=(0, 40000), shards=(1, 2),
             rule=f"Atheris/libFuzzer, library instrumented: bytes -> {t} spec via the reference decoder; every don't-care byte then overwritten "
                  "by a filler chosen from the input's tail; same metamorphic oracle") for t in specs.TYPES if t not in ("data2D", "calib")]
from ..core import optimised_child_sub  # noqa: E402
SUBS.append(optimised_child_sub("C12", ["filler-matrix"]))
TIME_BUDGET = {"quick": 150, "thorough": 1500}
