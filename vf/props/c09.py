"""C09 - the file stays compact: no holes, no leaked bytes, free slots point at EOF."""
from .. import container
from ..core import Sub, build_machine, run_history

PROP = {'id': 'C09', 'level': 'exploration', 'technique': 'Hypothesis RuleBasedStateMachine over add / remove / replace / setter histories from compact files; after every successful operation an independent parse must show live blocks back to back in table order, trailing free slots carrying the end-of-data offset, file length = header + table + sum of sizes, and the exact size delta of the operation; enumerated scripts (equal sizes incl. zero-size blocks, fill levels, tails up to 16 MiB), also in a child interpreter started with -O', 'level_text': 'Exploration of histories with the compactness formula as invariant; removals of the first, a middle, the last and the sole live block are all generated (evidence lists the counts) for table lengths 1..16 with any number of live and unused slots behind the removed one.', 'level_note': 'Trusted: reftdf.compact_problems (the same predicate holds on the BTS-recorded capture). Starts only from compact images.', 'design_ref': 'DESIGN.md section 4, C09', 'rule': 'case = {init image, ops}; non-trivial = a removal of the first / a middle / the last live block while at least one other block is live; distinct by sha1 of the history', 'assumptions': []}

GROUPS = {"C09"}
REFUSALS = False


def interp(ctx, init):
    return container.ContainerInterp(ctx, init, GROUPS)


summarize = container.summarize_factory(lambda s: s["remove-first"] or s["remove-middle"] or s["remove-last"])


def machine(ctx, tier):
    return build_machine(ctx, interp, container.init_images(allow_capture=True), container.history_ops(refusals=REFUSALS), summarize)


def run(ctx, case):
    run_history(ctx, case, interp, summarize)


SUBS = [Sub("histories", run, kind="machine", machine=machine, budget=(160, 4000), shards=(4, 16), steps=(25, 50),
            rule='histories of successful put/remove/reopen operations; compactness of the parsed file and size delta after each')]
SUBS.append(Sub("equal-size-scripts", run, kind="enum", enumerate=lambda tier: container.scripted_cases(), shards=(8, 16),
                rule="24 orders of equally sized blocks of different types (8 bytes each) x table lengths {3,4,14} x 8 short scripts (remove first / middle, "
                     "same-size replace, reopen); finite, enumerated"))
SUBS.append(Sub("fill-level-scripts", run, kind="enum", enumerate=lambda tier: container.fill_level_cases(), shards=(8, 16),
                rule="every table length 1..18, 20, 32 x fill levels {full-2, full-1, full} (all live blocks of distinct types: nine writable, seven undecodable) x 3 type orders x "
                     "scripts (add / set an absent type, replace / set / same-size-replace present ones, remove first then add); finite, enumerated", nontrivial_required=False))
def run_optimised(ctx, case):
    """the same enumerated scripts in a child interpreter started with -O (assert statements compiled away): a side effect that lives
    inside an assert is gone there. The child is this very check restricted to one sub-check; its first finding is relayed."""
    import os
    import subprocess
    import sys

    from .. import env

    cmd = [sys.executable, "-O", "-X", "faulthandler", "-m", "vf.main", "C09", "--tier", "quick", "--only", case["sub"], "--workers", "4"]
    p = subprocess.run(cmd, cwd=env.VERIF_DIR, env=dict(os.environ, VERIF_NESTED="1", VERIF_FAST_FAIL="1"), capture_output=True, text=True, timeout=900)
    keys = [line.strip() for line in p.stdout.splitlines() if line.startswith("  C09/")]
    if p.returncode == 1 and keys:
        k, _, what = keys[0].partition(": ")
        ctx.fail("python-O/" + k.split("/", 2)[2], "with assertions disabled (python -O): " + what)
    elif p.returncode != 0:
        raise env.HarnessError(f"child interpreter ended with {p.returncode}: {(p.stdout + p.stderr)[-600:]}")
    summary = next((line for line in p.stdout.splitlines() if line.startswith("[C09]")), "")
    ctx.case(case, True, labels=["python -O", summary[:80]])


SUBS.append(Sub("scripts-under-python-O", run_optimised, kind="enum", enumerate=lambda tier: iter([{"sub": "fill-level-scripts"}, {"sub": "equal-size-scripts"}]), shards=(2, 2),
                rule="the two enumerated script sets once more in a child interpreter started with -O (no assert statements): one case = one whole sub-check in the child",
                nontrivial_required=False))
TIME_BUDGET = {"quick": 150, "thorough": 1500}
