"""C09 - the file stays compact: no holes, no leaked bytes, free slots point at EOF."""
from .. import container
from ..core import Sub, build_machine, run_history

PROP = {'id': 'C09', 'level': 'exploration', 'technique': 'Hypothesis RuleBasedStateMachine over add / remove / replace / setter histories from compact files; after every successful operation an independent parse must show live blocks back to back in table order, trailing free slots carrying the end-of-data offset, file length = header + table + sum of sizes, and the exact size delta of the operation; enumerated scripts (equal sizes incl. zero-size blocks, fill levels, tails up to 16 MiB), also in a child interpreter started with -O', 'level_text': 'Exploration of histories with the compactness formula as invariant; removals of the first, a middle, the last and the sole live block are all generated (evidence lists the counts) for table lengths 1..16 with any number of live and unused slots behind the removed one.', 'level_note': 'Trusted: reftdf.compact_problems (the same predicate holds on the BTS-recorded capture). Starts only from compact images.', 'design_ref': 'DESIGN.md section 4, C09', 'rule': 'case = {init image, ops}; non-trivial = a removal of the first / a middle / the last live block while at least one other block is live; distinct by sha1 of the history', 'assumptions': []}

GROUPS = {"C09"}
REFUSALS = False


def interp(ctx, init):
    return container.ContainerInterp(ctx, init, GROUPS)


summarize = container.summarize_factory(lambda s: s["remove-first"] or s["remove-middle"] or s["remove-last"])


def machine(ctx, tier):
    return build_machine(ctx, interp, container.init_images(allow_capture=True), container.history_ops(refusals=REFUSALS), summarize)


def run(ctx, case):
    run_history(ctx, case, interp, summarize)


SUBS = [Sub("histories", run, kind="machine", machine=machine, budget=(160, 4000), shards=(4, 16), steps=(25, 50),
            rule='histories of successful put/remove/reopen operations; compactness of the parsed file and size delta after each')]
SUBS.append(Sub("equal-size-scripts", run, kind="enum", enumerate=lambda tier: container.scripted_cases(duplicate_types=True), shards=(8, 16),
                rule="24 orders of equally sized blocks of different types (8 bytes each) x table lengths {3,4,14} x 8 short scripts (remove first / middle, "
                     "same-size replace, reopen); finite, enumerated"))
SUBS.append(Sub("fill-level-scripts", run, kind="enum", enumerate=lambda tier: container.fill_level_cases(), shards=(8, 16),
                rule="every table length 1..18, 20, 32 x fill levels {full-2, full-1, full} (all live blocks of distinct types: nine writable, seven undecodable) x 3 type orders x "
                     "scripts (add / set an absent type, replace / set / same-size-replace present ones, remove first then add); finite, enumerated", nontrivial_required=False))
from ..core import optimised_child_sub  # noqa: E402

SUBS.append(optimised_child_sub("C09", ["fill-level-scripts", "equal-size-scripts"], name="scripts-under-python-O"))
TIME_BUDGET = {"quick": 150, "thorough": 1500}
SUBS.append(optimised_child_sub("C09", ["fill-level-scripts", "equal-size-scripts"], flags=(), name="scripts-with-debug-logging", extra_env={"VERIF_LOGGING": "DEBUG"},
                                what="logging.basicConfig(level=DEBUG): every logger is enabled for every level"))
