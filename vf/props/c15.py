"""C15 - channel numbers stay attached to their items through edits."""
import numpy as np
from hypothesis import strategies as st

from .. import reftdf, specs
from ..core import Sub, build_machine, run_history

PROP = {
    "id": "C15",
    "level": "exploration",
    "technique": "Hypothesis RuleBasedStateMachine per channel-mapped block type (EMG, platform calibration, platform data): add (automatic / explicit free / explicit taken channel), remove (label / index / item), bulk add / remove / assignment, adds refused for other reasons than the channel, negative indexes, starting from an empty, constructor-filled or decoded block; model = list of (channel, item); the encoded bytes are decoded by the reference codec after every step; steps may go unobserved (no read of the block after them) and items may also be members of another block; enumerated runs of unobserved edits",
    "level_text": ("Exploration of edit histories against a pair model: after every operation the (channel, item) pairs exposed by the "
                   "block and the pairs found in its encoding (decoded by the independent reference codec) are compared with the "
                   "model - equal lengths, unique channels, surviving items keep the channel they were given, refused operations "
                   "change nothing."),
    "level_note": "Explicit channels are drawn from 0..31999 so that automatic channels (max+1) assigned later in a history stay inside the 16-bit map. For an automatic channel, 'ValueError and nothing changed' is accepted in place of an assignment (the statement only requires that an assigned automatic channel is not in use). Bulk assignment on platform data is held to the invariants only (its docstring does not say whether it replaces).",
    "design_ref": "DESIGN.md section 5, C15",
    "rule": "case = {init, ops}; non-trivial = a remove followed by an add, or any edit on a decoded / constructor-filled block; distinct by sha1 of the history",
    "assumptions": [],
}

ONE = 0x3F800000


def fbits(x):
    return specs.bits_of_f32(float(x))


class Base:
    t = None

    def __init__(self, ctx, init):
        self.ctx = ctx
        self.counter = 0
        self.given = {}      # id(item) -> channel it was given
        self.items = {}      # id(item) -> (item, tag)
        self.model = []      # [(channel, id(item))]
        self.start = init["start"]
        self.stats = {"remove-then-add": 0, "edit-on-" + init["start"]: 0, "refused": 0, "auto": 0, "explicit": 0, "bulk": 0, "auto-refused": 0}
        self.removed_once = False
        self.removed_items = []
        self.freed = []
        self.make_block(init)
        self.check("init")

    # ---- to be provided per type: make_block, new_item(tag), exposed() -> [(ch, item)], encoded_pairs() -> [(ch, tag)]
    def register(self, item, ch, tag):
        self.items[id(item)] = (item, tag)
        self.given[id(item)] = ch
        self.model.append((ch, id(item)))

    def fresh(self):
        self.counter += 1
        tag = self.counter
        return self.new_item(tag), tag

    def used(self):
        return {c for c, _ in self.model}

    def pick_channel(self, op, free):
        used = sorted(self.used())
        if free and op.get("reuse") and self.freed:
            c = self.freed[-1]
            if c not in used:
                self.stats["reused-freed-channel"] = self.stats.get("reused-freed-channel", 0) + 1
                return c
        if free:
            c = op.get("ch", 0) % 32000
            while c in used:
                c = (c + 1) % 32000
            return c
        return used[op.get("ch", 0) % len(used)] if used else None

    def edited(self):
        if self.start != "empty":
            self.stats["edit-on-" + self.start] += 1

    def check(self, where):
        t = self.t
        if getattr(self, "quiet", False) and where != "end":
            # this step goes unobserved: the block is not looked at (no accessor, no iteration, no encoding) until a later step does
            self.stats["unobserved-edits"] = self.stats.get("unobserved-edits", 0) + 1
            self.unobserved_run = getattr(self, "unobserved_run", 0) + 1
            self.stats["longest-unobserved-run"] = max(self.stats.get("longest-unobserved-run", 0), self.unobserved_run)
            return
        self.unobserved_run = 0
        pairs = self.exposed()
        chans = [int(c) for c, _ in pairs]
        n_items = self.count_items()
        if n_items != len(pairs) or self.count_channels() != n_items:
            self.ctx.fail(f"{where}/lists-misaligned", f"{t}: after {where}: {n_items} items, {self.count_channels()} channel numbers, {len(pairs)} exposed pairs")
        if len(set(chans)) != len(chans):
            self.ctx.fail(f"{where}/duplicate-channel", f"{t}: after {where}: channels {chans} are not unique")
        for c, it in pairs:
            if id(it) not in self.given:
                self.ctx.fail(f"{where}/unknown-item", f"{t}: after {where}: the block exposes an item that was never added")
            elif self.given[id(it)] != int(c):
                self.ctx.fail(f"{where}/channel-changed", f"{t}: after {where}: item #{self.items[id(it)][1]} was given channel {self.given[id(it)]} but is now bound to {int(c)}")
        got = [(int(c), id(it)) for c, it in pairs]
        if got != self.model:
            self.ctx.fail(f"{where}/pairs-differ-from-model",
                          f"{t}: after {where}: pairs {[(c, self.items.get(i, (None, '?'))[1]) for c, i in got]}, expected {[(c, self.items[i][1]) for c, i in self.model]}")
        enc = self.encoded_pairs(where)
        if enc is not None:
            want = [(c, self.items[i][1]) for c, i in self.model]
            if enc != want:
                self.ctx.fail(f"{where}/encoded-pairs", f"{t}: after {where}: the encoding carries (channel, item) pairs {enc}, expected {want}")

    def expect_refusal(self, where, fn, exc_types=(Exception,), what=""):
        before = [(int(c), id(i)) for c, i in self.exposed()]
        try:
            fn()
        except exc_types:
            self.stats["refused"] += 1
            self.check(where)
            return True
        except Exception as e:  # noqa
            self.ctx.fail(f"{where}/wrong-exception-{type(e).__name__}", f"{self.t}: {what} raised {type(e).__name__}: {e} (expected {'/'.join(x.__name__ for x in exc_types)})")
            return True
        self.ctx.fail(f"{where}/not-refused", f"{self.t}: {what} did not raise (pairs before: {before})")
        return False

    def op_add(self, op):
        mode = op["mode"]
        item, tag = self.fresh()
        if mode == "auto":
            used = self.used()
            try:
                self.do_add(item, None)
            except ValueError:
                # tolerated only if nothing changed
                self.stats["auto-refused"] += 1
                self.check("add-auto-refused")
                return
            pairs = self.exposed()
            ch = next((int(c) for c, it in pairs if it is item), None)
            if ch is None:
                self.ctx.fail("add-auto/item-missing", f"{self.t}: item added with automatic channel is not in the block")
                return
            if ch in used:
                self.ctx.fail("add-auto/channel-in-use", f"{self.t}: automatic channel {ch} was already in use ({sorted(used)})")
            self.register(item, ch, tag)
            self.stats["auto"] += 1
            self.check("add-auto")
        elif mode == "free":
            ch = self.pick_channel(op, True)
            arg = np.int16(ch) if op.get("np") else ch
            self.do_add(item, arg)
            self.register(item, ch, tag)
            self.stats["explicit"] += 1
            self.check("add-explicit")
        else:
            ch = self.pick_channel(op, False)
            if ch is None:
                return
            self.expect_refusal("add-taken", lambda: self.do_add(item, ch), (ValueError,), f"adding with channel {ch} that is in use")
        if self.removed_once:
            self.stats["remove-then-add"] += 1
        self.edited()

    def op_add_invalid(self, op):
        """an add the block has to refuse for a reason that has nothing to do with channels (wrong length, wrong kind): nothing may stay
        behind - in particular not the channel number it would have got, which the very next (valid) add asks for"""
        bad = self.bad_items()
        if not bad:
            return
        kind, obj = bad[op.get("idx", 0) % len(bad)]
        if op["mode"] == "free":
            ch = self.pick_channel(op, True)
            self.expect_refusal(f"add-invalid-{kind}", lambda: self.do_add(obj, ch), (Exception,), f"adding {kind} with the free channel {ch}")
            item, tag = self.fresh()
            ok, _ = self.ctx.must(lambda: self.do_add(item, ch), f"add-after-refused-{kind}", f"adding a valid item with channel {ch}, which a refused add had asked for just before")
            if ok:
                self.register(item, ch, tag)
                self.stats["explicit"] += 1
                self.check(f"add-after-refused-{kind}")
        else:
            self.expect_refusal(f"add-invalid-{kind}", lambda: self.do_add(obj, None), (Exception,), f"adding {kind} with an automatic channel")
        self.stats["invalid-adds-refused"] = self.stats.get("invalid-adds-refused", 0) + 1

    def bad_items(self):
        return []

    def drop_model(self, idx):
        self.removed_items.append(self.items[self.model[idx][1]])
        self.freed.append(self.model[idx][0])
        del self.model[idx]
        self.removed_once = True
        self.edited()

    def op_readd(self, op):
        """an item that was removed earlier is added again (automatic or explicit free channel)"""
        if not self.removed_items:
            return
        item, tag = self.removed_items.pop(op.get("idx", 0) % len(self.removed_items))
        if any(i == id(item) for _, i in self.model):
            return
        if op.get("mode") == "free":
            ch = self.pick_channel(op, True)
            self.do_add(item, ch)
        else:
            used = self.used()
            try:
                self.do_add(item, None)
            except ValueError:
                self.stats["auto-refused"] += 1
                self.check("readd-auto-refused")
                return
            ch = next((int(c) for c, it in self.exposed() if it is item), None)
            if ch is None or ch in used:
                self.ctx.fail("readd/channel", f"{self.t}: re-added item got channel {ch} (in use: {sorted(used)})")
                return
        self.register(item, ch, tag)
        self.stats["remove-then-add"] += 1
        self.stats["readd"] = self.stats.get("readd", 0) + 1
        self.edited()
        self.check("readd")

    def finish(self):
        self.check("end")
        by = getattr(self, "bystander", None)
        if by is not None:
            now = [(int(c), id(p)) for c, p in by.platforms]
            if now != self.bystander_pairs or len(by) != len(self.bystander_pairs) or len(by._platformMap) != len(self.bystander_pairs):
                self.ctx.fail("constructor/bystander-changed", f"platCal: a second block constructed from the same list of platforms changed although only the first "
                                                               f"was edited ({len(self.bystander_pairs)} pairs -> {len(now)} pairs, len()={len(by)}, {len(by._platformMap)} channel numbers)")

    def close(self):
        pass

    def apply(self, op):
        # an edit may go unobserved (the harness does not look at the block after it) when the harness needs no look to know its outcome:
        # explicit free-channel adds and single removals
        self.quiet = bool(op.get("quiet")) and ((op["op"] == "add" and op.get("mode") == "free") or
                                                (op["op"] == "remove" and op.get("target") in ("present", "index", "item", "negative-index")))
        if op["op"] == "look":
            self.check("look")
            return
        if op["op"] == "share":
            self.op_share(op)
            return
        try:
            self._apply(op)
        finally:
            self.quiet = False

    def op_share(self, op):
        """an item of this block is ALSO added to another block of the same kind, there under another channel (re-packing signals into a new
        block numbered from 0; one item object in two containers): this block's pairs are its own business and stay what they are - also
        when the item is removed here afterwards"""
        if not self.model:
            return
        if not hasattr(self, "other"):
            self.other, self.other_used = self.make_other(), set()
        idx = op.get("idx", 0) % len(self.model)
        ch_here, iid = self.model[idx]
        item = self.items[iid][0]
        others_here = [c for c, i in self.model if i != iid and c not in self.other_used and c != ch_here]
        if op.get("mode") == "taken-here" and others_here:
            ch = others_here[op.get("ch", 0) % len(others_here)]      # a channel number that is in use HERE, by another item
        else:
            ch = 20000 + (op.get("ch", 0) * 7 + len(self.other_used)) % 10000
            while ch in self.other_used or ch == ch_here:
                ch += 1
        try:
            (self.other.addSignal if self.t == "emg" else self.other.add_platform)(item, channel=ch)
            self.other_used.add(ch)
            self.stats["items-shared-with-another-block"] = self.stats.get("items-shared-with-another-block", 0) + 1
        except Exception:  # noqa - the other block's business
            pass
        self.check("share")

    def make_other(self):
        n = getattr(self, "N", 2)
        if self.t == "emg":
            from basictdf.tdfEMG import EMG
            return EMG(1000, n)
        if self.t == "platCal":
            from basictdf.tdfForcePlatformsCalibration import ForcePlatformsCalibrationDataBlock
            return ForcePlatformsCalibrationDataBlock()
        from basictdf.tdfForcePlatformsData import ForcePlatformsDataBlock
        return ForcePlatformsDataBlock(0.0, 100, n)

    def add_call(self, method, item, ch):
        """the channel is passed by keyword and positionally in turn: (item, channel=None) is the documented signature"""
        self.calls = getattr(self, "calls", 0) + 1
        if ch is None:
            return method(item)
        if self.calls % 2:
            self.stats["channel-passed-positionally"] = self.stats.get("channel-passed-positionally", 0) + 1
            return method(item, ch)
        return method(item, channel=ch)


# ---------------------------------------------------------------------------------------
class EmgInterp(Base):
    t = "emg"
    N = 3

    def make_block(self, init):
        from basictdf.tdfEMG import EMG
        if init["start"] == "decoded":
            k = init.get("k", 2)
            chans = [(init.get("ch0", 0) + 3 * i) % 32000 for i in range(k)]
            if init.get("ch0", 0) % 2:
                chans = sorted(set(chans), reverse=True) if len(set(chans)) == len(chans) else chans   # descending map
            spec = {"t": "emg", "format": 1, "frequency": 1000, "startTime": 0, "nSamples": self.N,
                    "signals": [{"label": f"d{i}", "channel": chans[i], "frames": [fbits(1000 + i)] * self.N} for i in range(k)]}
            self.b, _ = specs.lib_decode("emg", 1, reftdf.encode(spec))
            for i, sig in enumerate(list(self.b)):
                self.register(sig, chans[i], f"d{i}")
        else:
            self.b = EMG(1000, self.N)

    def new_item(self, tag):
        from basictdf.tdfEMG import EMGTrack
        return EMGTrack(f"s{tag}", np.full(self.N, float(tag), dtype="<f4"))

    def do_add(self, item, ch):
        self.add_call(self.b.addSignal, item, ch)

    def count_items(self):
        return len(self.b)

    def count_channels(self):
        return len(self.b._emgMap)

    def exposed(self):
        return list(zip(list(self.b._emgMap), list(iter(self.b))))

    def encoded_pairs(self, where):
        ok, w = self.ctx.must(lambda: specs.lib_write(self.b), f"{where}/encode", "encoding the EMG block")
        if not ok:
            return None
        try:
            spec, _, _, _ = reftdf.decode("emg", 1, w)
        except reftdf.RefError as e:
            self.ctx.fail(f"{where}/encoding-unparseable", f"emg: encoding does not parse: {e}")
            return None
        out = []
        for g in spec["signals"]:
            lab = g["label"]
            out.append((g["channel"], int(lab[1:]) if lab.startswith("s") else lab))
        return out

    def bad_items(self):
        from basictdf.tdfEMG import EMGTrack
        from basictdf.tdfData3D import MarkerTrack

        n = int(self.b.nSamples)
        return [("wrong-length", EMGTrack("long", np.zeros(n + 1, dtype="<f4"))), ("wrong-length", EMGTrack("short", np.zeros(max(0, n - 1), dtype="<f4"))),
                ("wrong-kind", MarkerTrack("m", np.zeros((n, 3), dtype="<f4"))), ("wrong-kind", None), ("wrong-kind", "signal")]

    def _apply(self, op):
        if op["op"] == "add":
            self.op_add(op)
        elif op["op"] == "add-invalid":
            self.op_add_invalid(op)
        elif op["op"] == "readd":
            self.op_readd(op)
        elif op["op"] == "remove":
            if op["target"] == "present" and self.model:
                idx = op["idx"] % len(self.model)
                item = self.items[self.model[idx][1]][0]
                ok, _ = self.ctx.must(lambda: self.b.removeSignal(item.label), "remove-label", f"removing the signal labelled {item.label!r}")
                if ok:
                    self.drop_model(idx)
                    self.check("remove-label")
            elif op["target"] == "via-shallow-copy" and self.model:
                # copy.copy(block) shares the block's lists: a signal removed through the copy is gone from both, and both stay aligned
                import copy as _copy

                idx = op["idx"] % len(self.model)
                item = self.items[self.model[idx][1]][0]
                if sum(1 for _, i in self.model if self.items[i][0].label == item.label) > 1:
                    return
                twin = _copy.copy(self.b)
                ok, _ = self.ctx.must(lambda: twin.removeSignal(item.label), "remove-via-shallow-copy", f"removing the signal labelled {item.label!r} through a shallow copy of the block")
                if ok:
                    self.drop_model(idx)
                    self.stats["removed-through-shallow-copy"] = self.stats.get("removed-through-shallow-copy", 0) + 1
                    self.check("remove-via-shallow-copy")
            else:
                self.expect_refusal("remove-absent", lambda: self.b.removeSignal("no such signal"), (KeyError,), "removing a label that is not there")


class PlatCalInterp(Base):
    t = "platCal"

    def bad_items(self):
        from basictdf.tdfEMG import EMGTrack

        return [("wrong-kind", None), ("wrong-kind", "platform"), ("wrong-kind", EMGTrack("e", np.zeros(2, dtype="<f4"))), ("wrong-kind", ("p", (1, 2)))]

    def make_block(self, init):
        from basictdf.tdfForcePlatformsCalibration import ForcePlatformsCalibrationDataBlock
        if init["start"] == "decoded":
            k = init.get("k", 2)
            chans = [(init.get("ch0", 0) + 3 * i) % 32000 for i in range(k)]
            if init.get("ch0", 0) % 2:
                chans = sorted(set(chans), reverse=True) if len(set(chans)) == len(chans) else chans   # descending map
            spec = {"t": "platCal", "format": 2, "plats": [{"channel": chans[i], "label": f"d{i}", "size": [ONE, ONE], "position": [ONE] * 12} for i in range(k)]}
            self.b, _ = specs.lib_decode("platCal", 2, reftdf.encode(spec))
            for i, (c, p) in enumerate(self.b.platforms):
                self.register(p, chans[i], f"d{i}")
        elif init["start"] == "constructor":
            k = init.get("k", 2)
            plats = []
            for _ in range(k):
                p, tag = self.fresh()
                plats.append((p, tag))
            source_list = [p for p, _ in plats]
            self.b = ForcePlatformsCalibrationDataBlock(platforms=source_list)
            # a second block made from the very same list object: it is never touched again and must stay as constructed
            self.bystander = ForcePlatformsCalibrationDataBlock(platforms=source_list)
            self.bystander_pairs = [(int(c), id(p)) for c, p in self.bystander.platforms]
            # channels are automatic here: whatever the block exposes must be unique and complete
            pairs = self.b.platforms
            if len(pairs) != k or len(self.b) != k or len(self.b._platformMap) != k:
                self.ctx.fail("init/constructor-lists-misaligned", f"platCal: constructed with {k} platforms: len()={len(self.b)}, {len(self.b._platformMap)} channel numbers, {len(pairs)} exposed pairs")
            for (c, p), (q, tag) in zip(pairs, plats):
                self.register(q, int(c), tag)
        else:
            self.b = ForcePlatformsCalibrationDataBlock()

    def new_item(self, tag):
        from basictdf.tdfForcePlatformsCalibration import ForcePlatformInfo
        return ForcePlatformInfo(f"s{tag}", np.array([1.0, 2.0], dtype="<f4"), np.full((4, 3), float(tag), dtype="<f4"))

    def do_add(self, item, ch):
        self.add_call(self.b.add_platform, item, ch)

    def count_items(self):
        return len(self.b)

    def count_channels(self):
        return len(self.b._platformMap)

    def exposed(self):
        got = self.b.platforms
        pairs = list(got)
        if isinstance(got, list) and got:
            # what the accessor hands out is the caller's: using it as a work list (reversing, emptying it) is not an edit of the block
            got.reverse()
            got.pop()
            again = list(self.b.platforms)
            if [(int(c), id(p)) for c, p in again] != [(int(c), id(p)) for c, p in pairs]:
                self.ctx.fail("accessor-result-aliased", f"platCal: the list returned by .platforms was reversed and shortened by the caller; .platforms now reports "
                                                         f"{len(again)} pairs instead of the {len(pairs)} it reported a moment ago")
        return pairs

    def encoded_pairs(self, where):
        ok, w = self.ctx.must(lambda: specs.lib_write(self.b), f"{where}/encode", "encoding the platform calibration block")
        if not ok:
            return None
        try:
            spec, _, _, _ = reftdf.decode("platCal", 2, w)
        except reftdf.RefError as e:
            self.ctx.fail(f"{where}/encoding-unparseable", f"platCal: encoding does not parse: {e}")
            return None
        return [(p["channel"], int(p["label"][1:]) if p["label"].startswith("s") else p["label"]) for p in spec["plats"]]

    def _apply(self, op):
        o = op["op"]
        if o == "add":
            self.op_add(op)
        elif o == "readd":
            self.op_readd(op)
        elif o == "add-invalid":
            self.op_add_invalid(op)
        elif o == "add-twin":
            # a distinct object whose content equals an item already in the block
            if not self.model:
                return
            from basictdf.tdfForcePlatformsCalibration import ForcePlatformInfo
            src, tag = self.items[self.model[op["idx"] % len(self.model)][1]]
            twin = ForcePlatformInfo(src.label, np.array(src.size, dtype="<f4"), np.array(src.position, dtype="<f4"))
            ch = self.pick_channel(op, True)
            self.do_add(twin, ch)
            self.register(twin, ch, tag)
            self.stats["twins"] = self.stats.get("twins", 0) + 1
            self.edited()
            self.check("add-twin")
        elif o == "remove":
            tgt = op["target"]
            if tgt in ("index", "item") and self.model:
                idx = op["idx"] % len(self.model)
                item = self.items[self.model[idx][1]][0]
                arg = idx if tgt == "index" else item
                if tgt == "item":
                    # list semantics: the first item EQUAL to the argument goes (twins compare equal)
                    tag = self.items[self.model[idx][1]][1]
                    idx = next(j for j, (_, i) in enumerate(self.model) if self.items[i][1] == tag)
                ok, _ = self.ctx.must(lambda: self.b.remove_platform(arg), f"remove-{tgt}", f"removing platform #{idx} by {tgt}")
                if ok:
                    self.drop_model(idx)
                    self.check(f"remove-{tgt}")
            elif tgt == "negative-index" and self.model:
                # the block takes an index like a list does: -1 is the last platform (and its channel goes with it)
                n = len(self.model)
                idx = op["idx"] % n
                ok, _ = self.ctx.must(lambda: self.b.remove_platform(idx - n), "remove-negative-index", f"removing platform #{idx} of {n} as index {idx - n}")
                if ok:
                    self.drop_model(idx)
                    self.stats["negative-index-removals"] = self.stats.get("negative-index-removals", 0) + 1
                    self.check("remove-negative-index")
            elif tgt == "negative-index-out-of-range":
                n = len(self.model)
                self.expect_refusal("remove-bad-negative-index", lambda: self.b.remove_platform(-n - 1 - op["idx"] % 3), (Exception,), f"removing index < -{n}")
            elif tgt == "index-out-of-range":
                n = len(self.model)
                self.expect_refusal("remove-bad-index", lambda: self.b.remove_platform(n + op["idx"] % 3), (Exception,), f"removing index >= {n}")
            else:
                stranger, _ = self.fresh()
                self.expect_refusal("remove-absent-item", lambda: self.b.remove_platform(stranger), (Exception,), "removing a platform that is not in the block")
        elif o == "remove-many":
            if len(self.model) >= 2:
                idxs = sorted({op["idx"] % len(self.model), (op["idx"] // 7) % len(self.model)})
                items = [self.items[self.model[i][1]][0] for i in idxs]
                tags = [self.items[self.model[i][1]][1] for i in idxs]
                if len(set(tags)) != len(tags) or any(sum(1 for _, j in self.model if self.items[j][1] == tg) > 1 for tg in tags):
                    return  # twins involved: which of two equal items goes first is list semantics, exercised by single removals
                ok, _ = self.ctx.must(lambda: self.b.remove_platforms(items), "remove-many", "removing several platforms by item")
                if ok:
                    for i in reversed(idxs):
                        self.drop_model(i)
                    self.stats["bulk"] += 1
                    self.check("remove-many")
        elif o == "add-many":
            k = 1 + op["idx"] % 3
            new = [self.fresh() for _ in range(k)]
            if op["mode"] == "free":
                chans, used = [], set(self.used())
                c = op.get("ch", 0) % 32000
                for _ in range(k):
                    while c in used:
                        c = (c + 1) % 32000
                    chans.append(c)
                    used.add(c)
                ok, _ = self.ctx.must(lambda: self.b.add_platforms([p for p, _ in new], chans), "add-many", "adding several platforms with free channels")
                if ok:
                    for (p, tag), c in zip(new, chans):
                        self.register(p, c, tag)
            else:
                used = self.used()
                ok, _ = self.ctx.must(lambda: self.b.add_platforms([p for p, _ in new]), "add-many-auto", "adding several platforms with automatic channels")
                if ok:
                    pairs = {id(it): int(c) for c, it in self.exposed()}
                    for p, tag in new:
                        c = pairs.get(id(p))
                        if c is None or c in used:
                            self.ctx.fail("add-many-auto/channel", f"platCal: automatic channel {c} for a bulk-added platform is missing or in use")
                            return
                        used.add(c)
                        self.register(p, c, tag)
            self.stats["bulk"] += 1
            if self.removed_once:
                self.stats["remove-then-add"] += 1
            self.edited()
            self.check("add-many")
        elif o == "add-many-unequal":
            # platforms and channels of different lengths: what is added is unspecified, the pairing invariants are not
            k = 1 + op["idx"] % 3
            new = [self.fresh() for _ in range(k)]
            used = set(self.used())
            chans, c = [], op.get("ch", 0) % 32000
            for _ in range(k + (1 if op["mode"] == "free" else -1) or 2):
                while c in used:
                    c = (c + 1) % 32000
                chans.append(c)
                used.add(c)
            try:
                self.b.add_platforms([p for p, _ in new], chans)
            except Exception:  # noqa - refusing is fine
                pass
            pairs = self.exposed()
            for (p, tag) in new:
                hit = next((int(cc) for cc, it in pairs if it is p), None)
                if hit is not None:
                    self.items[id(p)] = (p, tag)
                    self.given[id(p)] = hit
                    if hit not in chans:
                        self.ctx.fail("add-many-unequal/channel-not-from-list", f"platCal: bulk add bound a platform to channel {hit}, which is not one of the given channels {chans}")
            self.model = [(int(cc), id(it)) for cc, it in pairs if id(it) in self.given]
            self.stats["bulk"] += 1
            self.edited()
            self.check("add-many-unequal")
        elif o == "assign":
            k = op["idx"] % 4
            new = [self.fresh() for _ in range(k)]
            base = op.get("ch", 0) % 30000
            chans = [base + 2 * i for i in range(k)]
            if op["mode"] == "collide" and k >= 2:
                chans[-1] = chans[0]
                try:
                    self.b.platforms = [(c, p) for c, (p, _) in zip(chans, new)]
                    self.ctx.fail("assign-collide/not-refused", "platCal: bulk assignment with a duplicate channel did not raise")
                except ValueError:
                    self.stats["refused"] += 1
                # whatever survived must satisfy the invariants; resynchronise the model on it
                for (p, tag), c in zip(new, chans):
                    self.items[id(p)] = (p, tag)
                    self.given[id(p)] = c
                self.model = [(int(c), id(it)) for c, it in self.exposed()]
                self.check("assign-collide")
            else:
                pairs_ = [(c, p) for c, (p, _) in zip(chans, new)]
                form = op.get("form", "list")
                arg = {"list": lambda: pairs_, "tuple": lambda: tuple(pairs_), "generator": lambda: (x for x in pairs_),
                       "zip": lambda: zip(chans, [p for p, _ in new]), "iter": lambda: iter(pairs_), "dict-items": lambda: dict(pairs_).items()}[form]()
                self.stats["assign-form:" + form] = self.stats.get("assign-form:" + form, 0) + 1
                ok, _ = self.ctx.must(lambda: setattr(self.b, "platforms", arg), "assign", f"bulk assignment of (channel, platform) pairs given as {form}")
                if ok:
                    self.model = []
                    for (p, tag), c in zip(new, chans):
                        self.register(p, c, tag)
                    self.check("assign")
            self.stats["bulk"] += 1
            self.edited()


class PlatDataInterp(Base):
    t = "platData"
    N = 2

    def bad_items(self):
        return [("wrong-kind", None), ("wrong-kind", "platform"), ("wrong-kind", np.zeros((2, 6), dtype="<f4"))]

    def make_block(self, init):
        from basictdf.tdfForcePlatformsData import ForcePlatformsDataBlock
        if init["start"] == "decoded":
            k = init.get("k", 2)
            chans = [(init.get("ch0", 0) + 3 * i) % 32000 for i in range(k)]
            if init.get("ch0", 0) % 2:
                chans = sorted(set(chans), reverse=True) if len(set(chans)) == len(chans) else chans   # descending map
            spec = {"t": "platData", "format": 1, "frequency": 100, "startTime": 0, "nFrames": self.N,
                    "plats": [{"channel": chans[i], "frames": [[fbits(5000 + i)] * 6] * self.N} for i in range(k)]}
            self.b, _ = specs.lib_decode("platData", 1, reftdf.encode(spec))
            for i, (c, p) in enumerate(list(self.b)):
                self.register(p, chans[i], 5000 + i)
        else:
            self.b = ForcePlatformsDataBlock(0.0, 100, self.N)

    def new_item(self, tag):
        from basictdf.tdfForcePlatformsData import ForcePlatformData
        return ForcePlatformData(np.full((self.N, 2), float(tag), dtype="<f4"), np.full((self.N, 3), float(tag), dtype="<f4"),
                                 np.full(self.N, float(tag), dtype="<f4"))

    def do_add(self, item, ch):
        self.add_call(self.b.add_platform, item, ch)

    def count_items(self):
        return len(list(self.b.platforms))

    def count_channels(self):
        return len(self.b._plat_map)

    def exposed(self):
        return list(iter(self.b))

    def encoded_pairs(self, where):
        ok, w = self.ctx.must(lambda: specs.lib_write(self.b), f"{where}/encode", "encoding the platform data block")
        if not ok:
            return None
        try:
            spec, _, _, _ = reftdf.decode("platData", 1, w)
        except reftdf.RefError as e:
            self.ctx.fail(f"{where}/encoding-unparseable", f"platData: encoding does not parse: {e}")
            return None
        return [(p["channel"], int(specs.f32_of(p["frames"][0][0]))) for p in spec["plats"]]

    def _apply(self, op):
        o = op["op"]
        if o == "add":
            self.op_add(op)
        elif o == "add-invalid":
            self.op_add_invalid(op)
        elif o == "assign":
            k = 1 + op["idx"] % 3
            new = [self.fresh() for _ in range(k)]
            seq = [p for p, _ in new]
            bad = op["mode"] == "collide"
            if bad:
                seq.insert(op["idx"] % (k + 1), "not a platform")
            used = self.used()
            try:
                self.b.platforms = seq
                raised = None
            except Exception as e:  # noqa
                raised = e
            if bad and raised is None:
                self.ctx.fail("assign-invalid/not-refused", "platData: bulk assignment containing a non-platform did not raise")
            # invariants only: learn what the block did, then check
            pairs = self.exposed()
            for c, it in pairs:
                if id(it) not in self.given:
                    tag = next((tg for p, tg in new if p is it), None)
                    if tag is None:
                        self.ctx.fail("assign/unknown-item", "platData: bulk assignment left an unknown item in the block")
                    if int(c) in used:
                        self.ctx.fail("assign/channel-in-use", f"platData: bulk assignment bound a new platform to channel {int(c)} that was in use")
                    used.add(int(c))
                    self.items[id(it)] = (it, tag)
                    self.given[id(it)] = int(c)
            self.model = [(int(c), id(it)) for c, it in pairs if id(it) in self.given]
            self.stats["bulk"] += 1
            self.edited()
            self.check("assign")


# ---------------------------------------------------------------------------------------
def summarize(it, case):
    labels = [it.t, "start=" + it.start] + [k for k, v in it.stats.items() if v]
    nt = it.stats["remove-then-add"] > 0 or any(v for k, v in it.stats.items() if k.startswith("edit-on-"))
    return nt, labels


def inits(t):
    starts = {"emg": ["empty", "decoded", "decoded"], "platCal": ["empty", "decoded", "constructor", "constructor"], "platData": ["empty", "decoded", "decoded"]}[t]
    return st.fixed_dictionaries({"start": st.sampled_from(starts), "k": st.integers(0, 3), "ch0": st.one_of(st.integers(0, 5), st.integers(0, 31999))})


def ops(t):
    ch = st.one_of(st.integers(0, 6), st.integers(0, 31999))
    idx = st.integers(0, 1000)
    add = st.fixed_dictionaries({"op": st.just("add"), "mode": st.sampled_from(["auto", "auto", "free", "free", "taken"]), "ch": ch, "np": st.booleans(), "reuse": st.booleans(),
                                  "quiet": st.booleans()})
    readd = st.fixed_dictionaries({"op": st.just("readd"), "mode": st.sampled_from(["auto", "free"]), "idx": idx, "ch": ch})
    bad = st.fixed_dictionaries({"op": st.just("add-invalid"), "mode": st.sampled_from(["auto", "free", "free"]), "ch": ch, "idx": idx})
    share = st.fixed_dictionaries({"op": st.just("share"), "idx": idx, "ch": ch, "mode": st.sampled_from(["taken-here", "taken-here", "fresh"])})
    if t == "emg":
        rem = st.fixed_dictionaries({"op": st.just("remove"), "target": st.sampled_from(["present", "present", "absent", "via-shallow-copy"]), "idx": idx, "quiet": st.booleans()})
        return st.one_of(add, add, rem, rem, readd, bad, share)
    if t == "platCal":
        rem = st.fixed_dictionaries({"op": st.just("remove"), "target": st.sampled_from(["index", "item", "index-out-of-range", "absent-item", "negative-index", "negative-index",
                                                                                         "negative-index-out-of-range"]), "idx": idx, "quiet": st.booleans()})
        many = st.fixed_dictionaries({"form": st.sampled_from(["list", "tuple", "generator", "zip", "iter", "dict-items"]),
                                      "op": st.sampled_from(["remove-many", "add-many", "assign", "assign", "add-many-unequal"]), "mode": st.sampled_from(["free", "auto", "collide"]), "idx": idx, "ch": ch})
        twin = st.fixed_dictionaries({"op": st.just("add-twin"), "idx": idx, "ch": ch})
        return st.one_of(add, add, rem, rem, rem, many, readd, twin, bad, share)
    assign = st.fixed_dictionaries({"op": st.just("assign"), "mode": st.sampled_from(["valid", "valid", "collide"]), "idx": idx})
    return st.one_of(add, add, add, assign, bad, share)


INTERP = {"emg": EmgInterp, "platCal": PlatCalInterp, "platData": PlatDataInterp}


def make(t):
    def machine(ctx, tier):
        return build_machine(ctx, INTERP[t], inits(t), ops(t), summarize)

    def run(ctx, case):
        run_history(ctx, case, INTERP[t], summarize)

    return Sub(t, run, kind="machine", machine=machine, budget=(120, 3000), shards=(1, 8), steps=(20, 40),
               rule=f"{t}: histories of add / remove / bulk operations from an empty, constructor-filled or decoded block")


def enum_unobserved(tier):
    """every run of two or three edits (explicit free-channel add, removal of the first / last item) that nobody looks at in between - the
    block was looked at before the run and is looked at after it: the pairs are those of the model whatever the net change in size"""
    import itertools

    alphabet = {"emg": ["add", "remove-first", "remove-last"], "platCal": ["add", "remove-first", "remove-last", "remove-item", "remove-negative"], "platData": ["add"]}
    for t in ("emg", "platCal", "platData"):
        starts = {"emg": ["decoded", "empty"], "platCal": ["decoded", "constructor", "empty"], "platData": ["decoded", "empty"]}[t]
        for start in starts:
            for k in (1, 2, 3):
                for ch0 in (0, 7):
                    for si in range(k if start != "empty" or True else 0):
                        # one item also added to ANOTHER block (under a channel in use here / a fresh one), then removed here, then an add
                        for mode in ("taken-here", "fresh"):
                            pre = [] if start != "empty" else [{"op": "add", "mode": "free", "ch": 40 + 3 * j, "np": False, "reuse": False} for j in range(k)]
                            rem = [] if t == "platData" else [{"op": "remove", "target": "present" if t == "emg" else "index", "idx": si}]
                            yield {"init": {"start": start, "k": k, "ch0": ch0}, "_script": f"{t}|{start}|k={k}|ch0={ch0}|share-{mode}-{si}",
                                   "ops": pre + [{"op": "share", "idx": si, "ch": si, "mode": mode}] + rem + [{"op": "add", "mode": "free", "ch": 300, "np": False, "reuse": False},
                                                                                                              {"op": "look"}]}
                    for length in (2, 3):
                        for seq in itertools.product(alphabet[t], repeat=length):
                            ops_ = [] if start != "empty" else [{"op": "add", "mode": "free", "ch": 40 + 3 * j, "np": False, "reuse": False} for j in range(k)]
                            ops_.append({"op": "look"})
                            for j, what in enumerate(seq):
                                if what == "add":
                                    ops_.append({"op": "add", "mode": "free", "ch": 100 + 10 * j, "np": bool(j % 2), "reuse": False, "quiet": True})
                                else:
                                    tgt = {"remove-first": "index", "remove-last": "index", "remove-item": "item", "remove-negative": "negative-index"}[what]
                                    ops_.append({"op": "remove", "target": "present" if t == "emg" else tgt, "idx": 0 if what in ("remove-first", "remove-item") else 999,
                                                 "quiet": True})
                            ops_.append({"op": "look"})
                            yield {"init": {"start": start, "k": k, "ch0": ch0}, "ops": ops_, "_script": f"{t}|{start}|k={k}|ch0={ch0}|{'+'.join(seq)}"}


def make_unobserved(t):
    def run(ctx, case):
        run_history(ctx, case, INTERP[t], summarize)

    return Sub(f"unobserved-edits:{t}", run, kind="enum", enumerate=lambda tier: (c for c in enum_unobserved(tier) if c["_script"].startswith(t + "|")), shards=(2, 4),
               rule=f"{t}: every run of two or three edits (explicit free-channel add - channel by keyword and positionally in turn -, removal of the first / last item by "
                    "index, item, negative index or label) with NO look at the block in between, from decoded / constructor-filled / freshly filled blocks of 1..3 items; the "
                    "block is looked at before and after the run; finite, enumerated", nontrivial_required=False)


SUBS = [make(t) for t in ("emg", "platCal", "platData")] + [make_unobserved(t) for t in ("emg", "platCal", "platData")]
from ..core import optimised_child_sub  # noqa: E402
SUBS.append(optimised_child_sub("C15", ["emg", "platCal", "platData"]))
SUBS.append(optimised_child_sub("C15", ["emg", "platCal", "platData"], flags=("-W", "error::UserWarning"), name="under-warnings-as-errors", extra_env={"VERIF_WARNINGS": "error"},
                                what="User / Deprecation / Future warnings are raised as exceptions"))
