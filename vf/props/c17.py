"""C17 - creating or copying a file never clobbers an existing one."""
import os
from pathlib import Path

from hypothesis import strategies as st

from .. import container, env, reftdf, specs
from ..core import Sub

PROP = {
    "id": "C17",
    "level": "exploration",
    "technique": "Hypothesis-generated target states (absent / existing TDF / existing non-TDF / existing empty file / directory) x path kind (str / pathlib.Path) x source images x follow-up mutations; oracle: independent parse of newly created files, sha256 of pre-existing targets before/after, sha256 of copy vs. original after mutating either one; source objects opened through symbolic / hard links; invalid inputs (missing path, missing / partial signature) must be refused by every reader, also by an object that had read a valid file at that path before; enumerated: source object in 7 states x target states x every awkward target name (brackets, wildcards, braces, %, $)",
    "level_text": ("Exploration over configurations: Tdf.new and Tdf.copy are called against every kind of pre-existing target (file, empty file, "
                   "TDF, directory, symlink) and absent targets with similarly named bystander files, with str / Path / relative paths, also from "
                   "inside an open write context; the whole target directory is hashed before and after (nothing pre-existing may change, nothing "
                   "but the target may appear); a created file is parsed by the reference reader (signature, version 1, 14 unused slots, offsets 4096, "
                   "sizes 0, nothing after the table); a refused call must raise FileExistsError and leave the target's bytes "
                   "untouched; after a successful copy a generated sequence of mutations is applied to the copy or to the original "
                   "and the other file's hash must not move."),
    "level_note": "Trusted: reftdf.parse_container. Copies are made inside one directory (same file system), which is where hard-link style sharing would show.",
    "design_ref": "DESIGN.md section 4, C17",
    "rule": "case = {target state, path kind, source image, follow-up ops}; non-trivial = the target exists, or a copy is followed by a mutation; distinct by sha1 of the case",
    "assumptions": [],
}

TARGETS = ["absent", "existing-tdf", "existing-non-tdf", "existing-empty", "directory", "existing-tdf-with-blocks", "symlink-to-file"]
ABSENT_KINDS = ["absent", "absent-no-suffix", "absent-other-suffix", "absent-upper-suffix"]


def make_target(d, kind, seed):
    p = os.path.join(d, "target.tdf")
    if kind in ABSENT_KINDS:
        # bystanders with similar names: none of them is the target, none may be touched
        ev = {"t": "events", "format": 1, "startTime": 0, "events": [{"label": "bystander", "type": 0, "values": [0x3F800000]}]}
        img = reftdf.build_image(3, [{"type": 16, "format": 1, "payload": reftdf.encode(ev), "comment": "do not touch", "cdate": 1, "mdate": 2}])
        names = {"absent": ["target.tdf.bak", "target"], "absent-no-suffix": ["walk.tdf", "walk.TDF", "walk.tdf.bak", "walk.bin"],
                 "absent-other-suffix": ["walk.tdf", "walk.dat.tdf", "walk"], "absent-upper-suffix": ["walk.tdf", "walk"]}[kind]
        for i, nm in enumerate(names):
            with open(os.path.join(d, nm), "wb") as f:
                f.write(img if i % 2 == 0 else container.opaque_payload(seed + i, 50 + i))
        p = os.path.join(d, {"absent": ["target.tdf", "t\u00e4rget \u20ac.tdf", "name with space .tdf", "~tilde.tdf", "x" * 200 + ".tdf", "trial[1].tdf", "walk [2].tdf",
                                        "session[a-c].tdf", "star*.tdf", "what?.tdf", "{brace}.tdf", "100%.tdf", "$HOME.tdf"][seed % 13],
                             "absent-no-suffix": "walk", "absent-other-suffix": "walk.dat", "absent-upper-suffix": "walk.TDF"}[kind])
        # ... and files under the names a writer might use for staging / locking / backing up next to ITS target: they are not the target
        base = os.path.basename(p)
        if len(base) < 200:
            for i, nm in enumerate([base + ".part", base + ".tmp", base + "~", base + ".bak", base + ".new", base + ".lock", "." + base, "." + base + ".swp", base + ".partial",
                                    base + ".temp", "tmp" + base, os.path.splitext(base)[0] + ".tmp"]):
                if (seed >> 3) % 3 != 2 and not os.path.exists(os.path.join(d, nm)):
                    with open(os.path.join(d, nm), "wb") as f:
                        f.write(container.opaque_payload(seed + 100 + i, 30 + i))
        return p, None
    # existing targets come under plain and under awkward names too (an existence test that normalises, strips or expands the name would miss them)
    p = os.path.join(d, ["target.tdf", "t\u00e4rget \u20ac.tdf", "name with space .tdf", "~tilde.tdf", "x" * 200 + ".tdf", "target.tdf", "UPPER.TDF", "trailing-dot.tdf.",
                         "trial[1].tdf", "walk [2].tdf", "session[a-c].tdf", "notes[draft].txt", "star*.tdf", "what?.tdf", "[!x].tdf", "{brace}.tdf", "100%.tdf", "$HOME.tdf"][seed % 18])
    if kind == "directory":
        os.mkdir(p)
        return p, "dir"
    if kind == "symlink-to-file":
        real = os.path.join(d, "real-target.bin")
        data = container.opaque_payload(seed, 100 + seed % 900)
        with open(real, "wb") as f:
            f.write(data)
        os.symlink(real, p)
        return p, data
    if kind == "existing-empty":
        data = b""
    elif kind == "existing-non-tdf":
        data = container.opaque_payload(seed, 1 + seed % 5000)
    elif kind == "existing-tdf":
        data = reftdf.build_image(14, [])
    else:
        ev = {"t": "events", "format": 1, "startTime": 0, "events": [{"label": "keep me", "type": 0, "values": [0x3F800000]}]}
        data = reftdf.build_image(3, [{"type": 16, "format": 1, "payload": reftdf.encode(ev), "comment": "precious", "cdate": 1, "mdate": 2}])
    with open(p, "wb") as f:
        f.write(data)
    return p, data


def snapshot(d):
    """every regular file below d -> sha256 (symlinks followed); directories listed by name"""
    import hashlib

    out = {}
    for root, dirs, files in os.walk(d):
        for name in dirs:
            out[os.path.relpath(os.path.join(root, name), d) + "/"] = "dir"
        for name in files:
            fp = os.path.join(root, name)
            try:
                with open(fp, "rb") as f:
                    out[os.path.relpath(fp, d)] = hashlib.sha256(f.read()).hexdigest()
            except OSError:
                out[os.path.relpath(fp, d)] = "unreadable"
    return out


def frame_condition(ctx, what, d, before, allowed_new):
    """nothing that existed before may change or vanish; only `allowed_new` may appear"""
    after = snapshot(d)
    for name, h in before.items():
        if name not in after:
            ctx.fail(f"{what}/bystander-removed", f"{what}: pre-existing {name!r} in the target directory disappeared")
        elif after[name] != h:
            ctx.fail(f"{what}/bystander-clobbered", f"{what}: pre-existing file {name!r} in the target directory was modified")
    extra = sorted(set(after) - set(before) - set(allowed_new))
    if extra:
        ctx.fail(f"{what}/unexpected-file-created", f"{what}: created {extra} besides / instead of the requested target {sorted(allowed_new)}")


def as_path(p, kind):
    if kind.startswith("relative"):
        os.chdir(os.path.dirname(p))
        p = os.path.basename(p) if kind.endswith("plain") else os.path.join(".", os.path.basename(p))
        return Path(p) if "Path" in kind else p
    if kind == "fspath-object" or kind == "DirEntry":
        # any os.PathLike is a path: an object that has nothing but __fspath__, or the DirEntry os.scandir() hands out for an existing file
        if kind == "DirEntry" and os.path.lexists(p):
            with os.scandir(os.path.dirname(p)) as it:
                for e in it:
                    if e.name == os.path.basename(p):
                        return e

        class OnlyFspath:
            def __init__(self, s):
                self._s = s

            def __fspath__(self):
                return self._s

        return OnlyFspath(p)
    return Path(p) if kind == "Path" else p


PATH_KINDS = ["str", "Path", "str", "Path", "relative-plain", "relative-dot-Path", "fspath-object", "DirEntry"]
CALL_STYLES = ["positional", "positional", "keyword"]   # the documented parameter names: Tdf.new(filename=...), tdf.copy(new_filename=...)


def call_new(Tdf, arg, style):
    return Tdf.new(filename=arg) if style == "keyword" else Tdf.new(arg)


def call_copy(obj, arg, style):
    return obj.copy(new_filename=arg) if style == "keyword" else obj.copy(arg)


def check_fresh_container(ctx, what, data):
    try:
        p = reftdf.parse_container(data)
    except reftdf.RefError as e:
        ctx.fail(f"{what}/not-a-container", f"{what}: created file is not a TDF container: {e}")
        return
    if len(data) != 64 + 288 * 14:
        ctx.fail(f"{what}/length", f"{what}: new file has {len(data)} bytes, expected {64 + 288 * 14}")
    if p["version"] != 1 or p["nEntries"] != 14:
        ctx.fail(f"{what}/header", f"{what}: version {p['version']}, {p['nEntries']} slots (expected 1, 14)")
    for i, e in enumerate(p["entries"]):
        if e["type"] != 0 or e["size"] != 0 or e["offset"] != 4096 or e["format"] != 0:
            ctx.fail(f"{what}/slot", f"{what}: slot {i} is type {e['type']} format {e['format']} offset {e['offset']} size {e['size']} (expected an unused slot pointing at 4096)")
    for key, msg in reftdf.well_formed_problems(p) + reftdf.compact_problems(p):
        ctx.fail(f"{what}/{key}", f"{what}: {msg}")
    if any(p["reserved1"]) or any(p["reserved2"]):
        ctx.fail(f"{what}/reserved-not-zero", f"{what}: reserved header bytes are not zero: {p['reserved1'].hex()} {p['reserved2'].hex()}")
    for i, e in enumerate(p["entries"]):
        if any(e["pad"]):
            ctx.fail(f"{what}/entry-pad-not-zero", f"{what}: pad word of slot {i} is {e['pad'].hex()}")
        if e["comment"] is None or any(e["comment_raw"][len(e["comment"].encode("cp1252")):]):
            ctx.fail(f"{what}/entry-comment-not-clean", f"{what}: comment field of slot {i} is not NUL padded text")


def _in_plain_context(t, blk):
    with t as f:
        f.add_block(blk)


def new_strategy(tier):
    return st.fixed_dictionaries({"target": st.sampled_from(TARGETS + ABSENT_KINDS[1:] + ["absent"]), "path": st.sampled_from(PATH_KINDS), "seed": st.integers(0, 10 ** 6),
                                  "call": st.sampled_from(CALL_STYLES)})


def run_new(ctx, case):
    from basictdf import Tdf

    d = env.fresh_dir()
    cwd0 = os.getcwd()
    try:
        p, before = make_target(d, case["target"], case["seed"])
        snap = snapshot(d)
        try:
            t = call_new(Tdf, as_path(p, case["path"]), case.get("call", "positional"))
            exc = None
        except Exception as e:  # noqa
            t, exc = None, e
        frame_condition(ctx, "new", d, snap, [os.path.relpath(p, d)] if case["target"] in ABSENT_KINDS else [])
        if case["target"] in ABSENT_KINDS:
            if exc is None and not os.path.isfile(p):
                ctx.fail("new/target-not-created", f"Tdf.new({os.path.basename(p)!r}) returned but no file exists at exactly that path")
            if exc is None and os.path.realpath(str(t.file_path) if os.path.isabs(str(t.file_path)) else os.path.join(os.getcwd(), str(t.file_path))) != os.path.realpath(p):
                ctx.fail("new/returned-object-path", f"Tdf.new returned an object for {t.file_path}, not for the requested {os.path.basename(p)!r}")
            if exc is not None:
                ctx.fail("new/absent-refused", f"Tdf.new on a fresh path raised {type(exc).__name__}: {exc}")
            else:
                import stat
                import time

                data_new = open(p, "rb").read()
                check_fresh_container(ctx, "new", data_new)
                pc = reftdf.parse_container(data_new)
                now = int(time.time())
                stamps = list(pc["dates"]) + [e[k] for e in pc["entries"] for k in ("cdate", "mdate", "adate")]
                if not all(now - 120 <= x <= now + 2 for x in stamps):
                    ctx.fail("new/dates-not-creation-time", f"new file: header / slot dates {sorted(set(stamps))[:4]} are not the creation time ({now})")
                probe = os.path.join(d, "mode-probe.bin")
                with open(probe, "wb"):
                    pass
                if stat.S_IMODE(os.stat(p).st_mode) != stat.S_IMODE(os.stat(probe).st_mode):
                    ctx.fail("new/file-mode", f"new file has permission bits {oct(stat.S_IMODE(os.stat(p).st_mode))}, an ordinarily created file {oct(stat.S_IMODE(os.stat(probe).st_mode))}")
                os.unlink(probe)
                # the returned object is a plain, closed, read-only handle on the new file
                from .c07 import labelled_spec

                blk = specs.build(labelled_spec("events", 1))
                for how, fn in (("no-context", lambda: t.add_block(blk)), ("plain-context", lambda: _in_plain_context(t, blk))):
                    try:
                        fn()
                        ctx.fail(f"new/returned-object-writable-{how}", f"the object returned by Tdf.new accepts add_block ({how}) without allow_write()")
                    except Exception:  # noqa
                        pass
                if open(p, "rb").read() != data_new:
                    ctx.fail("new/returned-object-wrote", "a refused mutation through the object returned by Tdf.new changed the file")
                with t as f:
                    if len(f.entries) != 14 or len(f) != 0:
                        ctx.fail("new/open-after-create", f"new file opens with {len(f.entries)} entries, {len(f)} live")
        else:
            if exc is None:
                ctx.fail(f"new/{case['target']}/not-refused", f"Tdf.new onto an existing {case['target']} did not raise")
            elif not isinstance(exc, FileExistsError):
                ctx.fail(f"new/{case['target']}/wrong-exception", f"Tdf.new onto an existing {case['target']} raised {type(exc).__name__}, expected FileExistsError")
            if before == "dir":
                if not os.path.isdir(p):
                    ctx.fail("new/directory-replaced", "Tdf.new replaced a directory")
            elif open(p, "rb").read() != before:
                ctx.fail(f"new/{case['target']}/clobbered", f"Tdf.new changed the bytes of the existing {case['target']} ({len(before)} -> {os.path.getsize(p)} bytes)")
    finally:
        os.chdir(cwd0)
        env.rmdir(d)
    ctx.case(case, case["target"] != "absent", labels=["new:" + case["target"], "path=" + case["path"]])


def copy_strategy(tier):
    op = st.fixed_dictionaries({"side": st.sampled_from(["copy", "original"]), "op": st.sampled_from(["add", "remove", "replace"]), "k": st.integers(0, 20),
                                "block": container.block_ops_payload()})
    return st.fixed_dictionaries({"target": st.sampled_from(ABSENT_KINDS + ["absent"] + TARGETS[1:] + ["source-itself", "source-other-spelling", "hardlink-to-source",
                                                                                                        "symlink-to-source"]), "path": st.sampled_from(PATH_KINDS),
                                  "inside_context": st.sampled_from([False, False, True]),
                                  "seed": st.integers(0, 10 ** 6), "source": container.init_images(), "followup": st.lists(op, max_size=5),
                                  "source_via_library": st.booleans(), "call": st.sampled_from(CALL_STYLES), "zero_tail": st.sampled_from([None, None, "small", "one-chunk", "many-chunks"]),
                                  "source_path": st.sampled_from(["direct", "direct", "symlink-abs", "symlink-rel", "symlink-chain", "hardlink"]),
                                  "source_state": st.sampled_from(SOURCE_STATES)})


SELF_TARGETS = ["source-itself", "source-other-spelling", "hardlink-to-source", "symlink-to-source"]
SOURCE_STATES = ["fresh", "fresh", "armed", "read-before", "written-before", "armed-after-read", "armed-twice", "left-by-exception"]


def prepare_source(src, state):
    """what the source OBJECT went through before copy() is called on it outside any context: nothing, allow_write() without a context yet
    (tdf = Tdf(p).allow_write(); backup; with tdf: ...), contexts entered and left"""
    if state in ("read-before", "armed-after-read"):
        with src:
            len(src)
    if state == "written-before":
        with src.allow_write():
            pass
    if state == "left-by-exception":
        try:
            with src.allow_write():
                raise KeyError("the caller's own")
        except KeyError:
            pass
    if state in ("armed", "armed-after-read", "armed-twice"):
        src.allow_write()
    if state == "armed-twice":
        src.allow_write()


def enum_copy_states(tier):
    src = {"source": "image", "N": 4, "blocks": [{"kind": "spec", "spec": {"t": "events", "format": 1, "startTime": 0, "events": [{"label": "e", "type": 0, "values": [0x3F800000]}]},
                                                  "comment": "c", "cdate": 5, "mdate": 6}], "version": 1}
    for state in sorted(set(SOURCE_STATES)):
        for target in ABSENT_KINDS + TARGETS[1:] + SELF_TARGETS:
            for path in ("str", "Path", "relative-plain", "fspath-object", "DirEntry"):
                for seed in range(13 if target in ABSENT_KINDS else 18):
                    if seed >= 3 and (path != "str" or state not in ("fresh", "armed")):
                        continue
                    yield {"target": target, "path": path, "inside_context": False, "seed": seed, "source": src, "followup": [], "source_via_library": False,
                           "call": "keyword" if seed % 2 else "positional", "zero_tail": None, "source_path": "direct", "source_state": state}


def run_copy(ctx, case):
    from basictdf import Tdf
    from basictdf.tdfBlock import BlockType

    d = env.fresh_dir()
    cwd0 = os.getcwd()
    try:
        it = container.ContainerInterp(ctx, case["source"], set())  # builds the source file (model only, no invariant group)
        try:
            if case["source_via_library"]:  # reach the source through a mutation history, not only through an image
                it.apply({"op": "put", "block": {"spec": {"t": "events", "format": 1, "startTime": 0, "events": [{"label": "src", "type": 1, "values": [0x3F800000, 0x40000000]}]},
                          "cdate": 3, "mdate": 4}, "via": "api", "comment": "made by history"})
            it.leave()
            src_path = it.path
            zt = case.get("zero_tail")
            if zt:
                # a source whose last stretch is nothing but zero bytes (a recording of silence; a sparse-aware copier must still copy it)
                from basictdf import Tdf as _T
                with _T(src_path).allow_write() as w_:
                    parsed_ = reftdf.parse_container(open(src_path, "rb").read())
                    live_ = [e["type"] for _, e in reftdf.live(parsed_)]
                    if reftdf.TYPE_CODE["emg"] not in live_ and len(live_) < parsed_["nEntries"]:
                        n_ = {"small": 3000, "one-chunk": 40000, "many-chunks": 300000}[zt]
                        w_.add_block(specs.build({"t": "emg", "format": 1, "frequency": 1000, "startTime": 0, "nSamples": n_, "_chmode": "explicit",
                                                  "signals": [{"label": "silence", "channel": 0, "frames": [0] * n_}]}))
                        ctx.label("source:zero-tail-" + zt)
            src_bytes = open(src_path, "rb").read()
            p, before = make_target(d, case["target"], case["seed"]) if case["target"] not in SELF_TARGETS else (None, None)
            if case["target"] in SELF_TARGETS:
                # the target designates the SOURCE FILE ITSELF - the same path, another spelling of it, a hard link or a symbolic link to it: an
                # existing target like any other (refused, untouched), not "nothing to do"
                sdir_ = os.path.dirname(src_path)
                if case["target"] == "source-itself":
                    p = src_path
                elif case["target"] == "source-other-spelling":
                    p = os.path.join(sdir_, ".", "sub", "..", os.path.basename(src_path))
                    os.makedirs(os.path.join(sdir_, "sub"), exist_ok=True)
                elif case["target"] == "hardlink-to-source":
                    p = os.path.join(d, "second-name.tdf")
                    os.link(src_path, p)
                else:
                    p = os.path.join(d, "link-to-source.tdf")
                    os.symlink(src_path, p)
                before = src_bytes
            how_src = case.get("source_path", "direct")
            if how_src != "direct":
                # the source object is opened through another name of the same file; the copy must still be a regular, independent file
                sdir = os.path.dirname(src_path)
                link = os.path.join(sdir, "latest.tdf")
                if how_src == "symlink-abs":
                    os.symlink(src_path, link)
                elif how_src == "symlink-rel":
                    os.symlink(os.path.basename(src_path), link)
                elif how_src == "symlink-chain":
                    os.symlink(os.path.basename(src_path), os.path.join(sdir, "mid.tdf"))
                    os.symlink(os.path.join(sdir, "mid.tdf"), link)
                else:
                    os.link(src_path, link)
                src = Tdf(link)
                ctx.label("source:" + how_src)
            else:
                src = Tdf(src_path)
            snap = snapshot(d)
            if case.get("inside_context") and case["target"] in ABSENT_KINDS:
                # copy taken while a write context is open, right after a mutation: the copy must contain it
                parsed0 = reftdf.parse_container(src_bytes)
                live0 = [e["type"] for _, e in reftdf.live(parsed0)]
                cands = [t_ for t_ in ("events", "emg", "optical", "data3D") if reftdf.TYPE_CODE[t_] not in live0]
                wrong_reader, src_at_copy = None, None
                try:
                    with src.allow_write() as w:
                        if cands and len(live0) < parsed0["nEntries"]:
                            from .c07 import labelled_spec

                            w.add_block(specs.build(labelled_spec(cands[0], 2)), "added just before the copy")
                        cp = call_copy(w, as_path(p, case["path"]), case.get("call", "positional"))
                        # ... the original is edited further in the same context; the object copy() returned keeps describing the COPY
                        copy_now = open(p, "rb").read() if os.path.isfile(p) else None
                        src_at_copy = open(src_path, "rb").read()
                        live1 = [e["type"] for _, e in reftdf.live(reftdf.parse_container(open(src_path, "rb").read()))]
                        if live1:
                            from basictdf.tdfBlock import BlockType as _BT

                            w.remove_block(_BT(live1[-1]))
                        if copy_now is not None:
                            want_live = [e["type"] for e in reftdf.parse_container(copy_now)["entries"]]
                            try:
                                got_live = [b_.type.value if hasattr(b_.type, "value") else int(b_.type) for b_ in cp.blocks] if not any(
                                    e_ in container.OPAQUE_CODES for e_ in want_live) else [e_.type.value for e_ in (cp.__enter__().entries)]
                            except Exception as e_:  # noqa
                                got_live = f"{type(e_).__name__}: {e_}"
                            finally:
                                h_ = getattr(cp, "handler", None)
                                if getattr(cp, "_inside_context", False) and cp is not w:
                                    try:
                                        cp.__exit__(None, None, None)
                                    except Exception:  # noqa
                                        pass
                            if got_live != want_live:
                                wrong_reader = (got_live, want_live)
                    exc = None
                except Exception as e:  # noqa
                    cp, exc = None, e
                src_bytes = src_at_copy if src_at_copy is not None else open(src_path, "rb").read()
                ctx.label("copy:inside-write-context")
                if wrong_reader is not None:
                    ctx.fail("copy/returned-object-reads-another-file", f"the object returned by copy() (taken inside an open context of the source, which was then edited "
                                                                       f"further) lists block types {wrong_reader[0]}; its own file holds {wrong_reader[1]}")
            else:
                prepare_source(src, case.get("source_state", "fresh"))
                ctx.label("source-object:" + case.get("source_state", "fresh"))
                try:
                    cp = call_copy(src, as_path(p, case["path"]), case.get("call", "positional"))
                    exc = None
                except Exception as e:  # noqa
                    cp, exc = None, e
                if open(src_path, "rb").read() != src_bytes:
                    ctx.fail("copy/source-changed", "Tdf.copy changed the source file")
            frame_condition(ctx, "copy", d, snap, [os.path.relpath(p, d)] if case["target"] in ABSENT_KINDS else [])
            if case["target"] not in ABSENT_KINDS:
                if exc is None:
                    ctx.fail(f"copy/{case['target']}/not-refused", f"Tdf.copy onto an existing {case['target']} did not raise")
                elif not isinstance(exc, FileExistsError):
                    ctx.fail(f"copy/{case['target']}/wrong-exception", f"Tdf.copy onto an existing {case['target']} raised {type(exc).__name__}, expected FileExistsError")
                if before == "dir":
                    if not os.path.isdir(p):
                        ctx.fail("copy/directory-replaced", "Tdf.copy replaced a directory")
                elif open(p, "rb").read() != before:
                    ctx.fail(f"copy/{case['target']}/clobbered", f"Tdf.copy changed the bytes of the existing {case['target']}")
                ctx.case(case, True, labels=["copy:" + case["target"], "path=" + case["path"]])
                return
            if exc is not None:
                ctx.fail("copy/absent-refused", f"Tdf.copy to a fresh path raised {type(exc).__name__}: {exc}")
                return
            if not os.path.isfile(p):
                ctx.fail("copy/target-not-created", f"Tdf.copy({os.path.basename(p)!r}) returned but no file exists at exactly that path")
                return
            if open(p, "rb").read() != src_bytes:
                ctx.fail("copy/not-identical" + ("-inside-write-context" if case.get("inside_context") else ""),
                         "the copy is not byte-identical to the original" + (" (copy taken inside an open write context right after add_block)" if case.get("inside_context") else ""))
            if os.path.islink(p):
                ctx.fail("copy/target-is-a-link", f"the copy (source opened through {how_src}) is a symbolic link to {os.readlink(p)!r}, not a file of its own")
            if os.path.samefile(p, src_path):
                ctx.fail("copy/same-file", "copy and original are the same file (same inode)")
            if os.path.realpath(os.path.join(os.getcwd(), str(cp.file_path))) != os.path.realpath(p):
                ctx.fail("copy/returned-handle", f"Tdf.copy returned an object for {cp.file_path}, not for the copy {p}")
            # independence: mutate one, the other must not move
            files = {"copy": p, "original": src_path}
            mutated = 0
            for f_op in case["followup"]:
                side = f_op["side"]
                other = "original" if side == "copy" else "copy"
                other_before = open(files[other], "rb").read()
                obj = cp if side == "copy" else src
                parsed = reftdf.parse_container(open(files[side], "rb").read())
                live = [e["type"] for _, e in reftdf.live(parsed)]
                spec = f_op["block"]["spec"]
                code = reftdf.TYPE_CODE[spec["t"]]
                try:
                    with obj.allow_write() as w:
                        if f_op["op"] == "remove" and live:
                            w.remove_block(BlockType(live[f_op["k"] % len(live)]))
                        elif code in live:
                            w.replace_block(specs.build(spec))
                        elif len(live) < parsed["nEntries"]:
                            w.add_block(specs.build(spec))
                        else:
                            continue
                    mutated += 1
                except Exception as e:  # noqa
                    from ..core import lib_frame

                    if lib_frame(e) is None:
                        raise
                    ctx.fail("copy/followup-raises", f"valid {f_op['op']} on the {side} raised {type(e).__name__}: {e}")
                if open(files[other], "rb").read() != other_before:
                    ctx.fail(f"copy/not-independent-{side}-mutated", f"mutating the {side} changed the bytes of the {other}")
            ctx.case(case, mutated > 0, labels=["copy:" + case["target"], "path=" + case["path"], f"followups={min(mutated, 3)}"])
        finally:
            it.close()
    finally:
        os.chdir(cwd0)
        env.rmdir(d)


def invalid_strategy(tier):
    sig = reftdf.SIGNATURE
    return st.fixed_dictionaries({
        "kind": st.sampled_from(["missing", "empty", "short-random", "random", "partial-signature", "signature-flipped-bit", "text", "zeros",
                                 "signature-at-offset", "signature-reversed", "signature-permuted", "signature-permuted"]),
        "seed": st.integers(0, 10 ** 6), "n": st.integers(1, 15), "path": st.sampled_from(PATH_KINDS),
        "preopen": st.sampled_from(["never", "never", "reader", "context", "write-context", "two-readers"])})


def run_invalid(ctx, case):
    from basictdf import Tdf
    from basictdf.tdfBlock import BlockType

    d = env.fresh_dir()
    cwd0 = os.getcwd()
    try:
        p = os.path.join(d, "x.tdf")
        kind, seed = case["kind"], case["seed"]
        valid = reftdf.build_image(14, [])
        if kind == "missing":
            data = None
        elif kind == "empty":
            data = b""
        elif kind == "short-random":
            data = container.opaque_payload(seed, case["n"])
        elif kind == "random":
            data = container.opaque_payload(seed, 4096)
        elif kind == "partial-signature":
            data = reftdf.SIGNATURE[:case["n"]] + container.opaque_payload(seed, 4096)
            if data[:16] == reftdf.SIGNATURE:
                data = data[:15] + bytes([data[15] ^ 1]) + data[16:]
        elif kind == "signature-flipped-bit":
            i = seed % 16
            data = valid[:i] + bytes([valid[i] ^ (1 << (seed // 16 % 8))]) + valid[i + 1:]
        elif kind == "signature-at-offset":
            data = container.opaque_payload(seed, case["n"]) + valid
            if data[:16] == reftdf.SIGNATURE:
                data = b"\x00" + data
        elif kind == "signature-reversed":
            data = reftdf.SIGNATURE[::-1] + valid[16:]
        elif kind == "signature-permuted":
            # the same 16 bytes in another order (what a GUID looks like in the other byte order; words or halves exchanged): the rest valid
            import uuid

            sg = reftdf.SIGNATURE
            variants = [uuid.UUID(bytes_le=sg).bytes, uuid.UUID(bytes=sg).bytes_le, sg[8:] + sg[:8], sg[4:8] + sg[:4] + sg[8:], b"".join(sg[i:i + 2][::-1] for i in range(0, 16, 2)),
                        b"".join(sg[i:i + 4][::-1] for i in range(0, 16, 4)), sg[:8] + sg[8:][::-1], sg[1:] + sg[:1]]
            data = variants[seed % len(variants)] + valid[16:]
            if data[:16] == sg:
                data = sg[::-1] + valid[16:]
        elif kind == "text":
            data = b"This is not a TDF file\n" * 200
        else:
            data = b"\x00" * 4096
        if data is not None:
            with open(p, "wb") as f:
                f.write(data)
        arg = as_path(p, case["path"])
        if data is None and case.get("preopen", "never") != "never":
            # the file existed and was read through the object, then disappears: every later read through the same object must refuse
            with open(p, "wb") as f:
                f.write(valid)
            for name in ("blocks", "has_events", "with"):
                t = Tdf(arg)
                t.blocks
                os.unlink(p)
                try:
                    r = t.__enter__() if name == "with" else getattr(t, name)
                except Exception:  # noqa
                    r = None
                else:
                    ctx.fail(f"open/missing-after-use/{name}-yields-data", f"reader {name} through an object whose file was deleted returned {str(r)[:60]!r} instead of raising")
                finally:
                    h = getattr(t, "handler", None)
                    if h is not None and not h.closed:
                        h.close()
                if os.path.exists(p):
                    ctx.fail("open/missing-path-created", "reading through an object whose file was deleted re-created the file")
                with open(p, "wb") as f:
                    f.write(valid)
            os.unlink(p)
        elif data is None:
            try:
                Tdf(arg)
                ctx.fail("open/missing-path-accepted", "Tdf(path) on a path that does not exist did not raise")
            except Exception:  # noqa
                pass
            if os.path.exists(p):
                ctx.fail("open/missing-path-created", "Tdf(path) created the missing file")
        else:
            readers = {"with": lambda t: t.__enter__(), "blocks": lambda t: t.blocks, "get_block": lambda t: t.get_block(0),
                       "events": lambda t: t.events, "has_events": lambda t: t.has_events, "repr": lambda t: repr(t),
                       "get_block-type": lambda t: t.get_block(BlockType.data3D)}
            pre = case.get("preopen", "never")
            for name, fn in readers.items():
                if pre != "never":
                    # the object has already opened a valid file at this path (successfully) before the file is replaced by the invalid one
                    with open(p, "wb") as f:
                        f.write(valid)
                    t = Tdf(arg)
                    if pre == "reader":
                        t.blocks
                    elif pre == "two-readers":
                        t.has_events, len(t)
                    elif pre == "context":
                        with t:
                            pass
                    else:
                        with t.allow_write():
                            pass
                    with open(p, "wb") as f:
                        f.write(data)
                else:
                    try:
                        t = Tdf(arg)
                    except Exception:  # noqa - refusing at construction is fine too
                        continue
                try:
                    r = fn(t)
                except Exception:  # noqa
                    continue
                finally:
                    h = getattr(t, "handler", None)
                    if h is not None and not h.closed:
                        h.close()
                ctx.fail(f"open/{kind}/{name}-yields-data" + ("" if pre == "never" else "-after-valid-use"),
                         f"reader {name} on a file without the TDF signature ({kind}{'' if pre == 'never' else '; the same object had read a valid file at this path before: ' + pre}) "
                         f"returned {str(r)[:60]!r} instead of raising")
            # a refusal must not wear off: the reader that follows a refused one through the SAME object is refused too
            names = list(readers)
            for i, first in enumerate(names):
                second = names[(i + 1 + seed) % len(names)]
                try:
                    t = Tdf(arg)
                except Exception:  # noqa
                    continue
                try:
                    readers[first](t)
                    continue   # (reported above)
                except Exception:  # noqa
                    pass
                try:
                    r = readers[second](t)
                except Exception:  # noqa
                    r = None
                    refused2 = True
                else:
                    refused2 = False
                finally:
                    h = getattr(t, "handler", None)
                    if h is not None and not h.closed:
                        h.close()
                if not refused2:
                    ctx.fail(f"open/{kind}/second-read-{second}-yields-data", f"on a file without the TDF signature ({kind}) reader {first} was refused, but reader {second} through the same "
                                                                              f"object then returned {str(r)[:60]!r} instead of raising")
            if open(p, "rb").read() != data:
                ctx.fail(f"open/{kind}/file-changed", "reading an invalid file changed it")
    finally:
        os.chdir(cwd0)
        env.rmdir(d)
    ctx.case(case, True, labels=["invalid:" + case["kind"], "preopen:" + case.get("preopen", "never")])


SUBS = [
    Sub("new", run_new, strategy=new_strategy, budget=(200, 4000), shards=(1, 8),
        rule="Tdf.new against every target state x path kind; parse of created files; bytes of existing targets"),
    Sub("copy", run_copy, strategy=copy_strategy, budget=(200, 5000), shards=(4, 16),
        rule="Tdf.copy of generated sources against every target state; byte identity; independence under follow-up mutations of either file"),
    Sub("new-every-name", run_new, kind="enum", shards=(2, 4),
        enumerate=lambda tier: ({"target": t, "path": p, "seed": s, "call": "keyword" if s % 2 else "positional"} for t in TARGETS + ABSENT_KINDS[1:] for p in ("str", "Path", "relative-plain", "fspath-object", "DirEntry")
                                for s in range(18 if t not in ABSENT_KINDS else 13) if t in ABSENT_KINDS or p not in ("relative-plain", "fspath-object", "DirEntry") or s < 3),
        rule="Tdf.new against every target state x every awkward target name (brackets, wildcards, braces, %, $, blanks, non-ASCII, 200 characters, upper-case suffix, "
             "trailing dot) x path kind; finite, enumerated", nontrivial_required=False),
    Sub("copy-source-states", run_copy, kind="enum", enumerate=enum_copy_states, shards=(4, 8),
        rule="Tdf.copy outside any context from a source OBJECT in each of 7 states (fresh, allow_write() called but no context yet, a read / write context entered and left, "
             "left through an exception, armed after a read, armed twice) x every target state (4 absent kinds, 6 existing kinds) x path kind x every awkward target name "
             "(brackets, wildcards, braces, %, $, blanks, non-ASCII, 200 characters); finite, enumerated", nontrivial_required=False),
    Sub("invalid-input", run_invalid, strategy=invalid_strategy, budget=(200, 4000), shards=(1, 8),
        rule="missing path, empty / short / random / partial-signature / bit-flipped-signature files: every reader must refuse - through a fresh object, and through an "
             "object that had already read a valid file at the same path before it was replaced or deleted"),
]
