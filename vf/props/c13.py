"""C13 - fixed-width text fields: exact width, lossless for valid text, else refused."""
import io
import struct
from datetime import datetime

from hypothesis import strategies as st

from .. import cp1252, reftdf, specs
from ..core import Sub

PROP = {
    "id": "C13",
    "level": "exploration",
    "technique": "exhaustive enumeration of the char x position x width x length product + Hypothesis text/bytes generation against an explicit cp1252 table oracle; every ordered pair of 27 special characters x 4 placements at each of the nine string sites (finite enumeration); every text also as an instance of a str subclass whose renderings are not its content; entry comments of bystander blocks through replace / set / remove",
    "level_text": ("Exploration with an exhaustive sub-domain: every cp1252 character at first/middle/last position for six widths and "
                   "seven boundary lengths is enumerated completely; beyond that Hypothesis samples arbitrary Unicode text, arbitrary "
                   "field bytes and every string site of the block classes. Right level because the domain is a product of small finite "
                   "sets plus an unbounded tail that only sampling can touch."),
    "level_note": "Trusted: the cp1252 table in vf/cp1252.py and struct-built expected item bytes; absence of failures outside the enumerated product is sampled, not proven.",
    "design_ref": "DESIGN.md section 3, C13",
    "rule": ("write side: (a) exhaustive product of every cp1252 character (and a set of non-encodable code points) "
             "x position first/middle/last x widths {1,2,3,8,32,256} x lengths {0,1,w-2,w-1,w,w+1,w+7}; (b) Hypothesis "
             "st.text over all of Unicode incl. NUL x widths; read side: Hypothesis byte strings of the field width; "
             "block sites: every string field of every item class with generated text. Oracle: an explicit cp1252 table. "
             "Non-trivial = the string has a non-ASCII character or its encoded length is within 1 of the field limit "
             "(or 0) or it is refused; distinct by sha1 of the case."),
    "assumptions": ["cp1252 table in vf/cp1252.py transcribed from the Windows-1252 definition (251 assigned bytes)",
                    "embedded NUL: only 'exactly w bytes or ValueError' is asserted (the statement excludes NUL from the lossless domain)"],
}

WIDTHS = (1, 2, 3, 8, 32, 256)
# not cp1252 as they stand, although a Unicode normalisation / compatibility mapping would turn them into cp1252 text
COMPOSABLE = ("e\u0301", "A\u030a", "n\u0303", "\u212b", "\u212a", "\ufb01", "\uff21", "o\u0308", "\u017f", "\u2126")
BAD_CPS = (0x81, 0x8D, 0x8F, 0x90, 0x9D, 0x100, 0x20AD, 0x3B1, 0xFFFD, 0xFFFF, 0x1F600, 0xD800)


def _lib():
    from basictdf.tdfTypes import BTSString

    return BTSString


def _nontrivial(s, w):
    try:
        n = len(cp1252.encode(s))
    except KeyError:
        return True
    return (not s.isascii()) or n == 0 or abs(n - (w - 1)) <= 1


# ---------------------------------------------------------------------------------------
def foreign_read(k):
    """a legal call made EARLIER in the process: the string reader used with its public `encoding` argument set to another codec (a file from
    another tool). What it leaves behind must not reach the writer, which always stores cp1252."""
    enc = (None, "utf-8", "latin-1", "ascii", "cp437")[k % 5]
    if enc is not None:
        try:
            _lib().read(4, b"ab\x00\x00", encoding=enc)
        except Exception:  # noqa
            pass
    return enc


def check_write(ctx, w, s):
    ctx.label("after-a-read-with-encoding:" + str(foreign_read(len(s) + w)))
    """the oracle for BTSString.write(w, s)"""
    B = _lib()
    ok_text = cp1252.encodable(s)
    has_nul = "\x00" in s
    fits = ok_text and len(cp1252.encode(s)) <= w - 1
    try:
        out = B.write(w, s)
        raised = None
    except ValueError as e:  # UnicodeEncodeError is a ValueError
        out, raised = None, e
    except Exception as e:  # any other exception type is not the documented refusal
        ctx.fail(f"write/raises-{type(e).__name__}", f"BTSString.write({w}, {s!r}) raised {type(e).__name__}: {e}")
        return
    if has_nul:
        if raised is None and (not isinstance(out, bytes) or len(out) != w):
            ctx.fail("write/nul-wrong-width", f"string with NUL: wrote {None if out is None else len(out)} bytes for width {w}")
        return
    if not ok_text or not fits:
        if raised is None:
            why = "not cp1252-encodable" if not ok_text else "too long"
            ctx.fail("write/accepts-invalid" + ("-unencodable" if not ok_text else "-too-long"),
                     f"BTSString.write({w}, {s!r}) ({why}) returned {len(out)} bytes instead of raising ValueError")
        return
    if raised is not None:
        ctx.fail("write/refuses-valid", f"BTSString.write({w}, {s!r}) refused a valid string: {raised}")
        return
    want = cp1252.field(s, w)
    if not isinstance(out, (bytes, bytearray)) or len(out) != w:
        ctx.fail("write/wrong-width", f"BTSString.write({w}, {s!r}) produced {len(out)} bytes")
        return
    if bytes(out) != want:
        ctx.fail("write/wrong-bytes", f"BTSString.write({w}, {s!r}) = {bytes(out)[:40]!r}.., table says {want[:40]!r}..")
        return
    ok, back = ctx.must(lambda: B.read(w, bytes(out)), "read-back", f"read of what write({w},{s!r}) produced")
    if ok and back != s:
        ctx.fail("roundtrip/not-identical", f"read(write({s!r})) = {back!r}")
    bio = io.BytesIO()
    B.bwrite(bio, w, s)
    if bio.getvalue() != want:
        ctx.fail("bwrite/wrong-bytes", f"bwrite({w},{s!r}) differs from write")


def run_write_enum(ctx, case):
    if "pair" in case:
        w = case["w"]
        p = chr(case["pair"][0]) + chr(case["pair"][1])
        s = {"start": p + "abc", "end": "abc" + p, "alone": p}[case["where"]]
        check_write(ctx, w, s)
        ctx.case(case, True, labels=(f"w={w}", "pair"))
        return
    w, L, pos, cp = case["w"], case["len"], case["pos"], case["cp"]
    chars = ["a"] * L
    if L:
        chars[{"first": 0, "middle": L // 2, "last": L - 1}[pos]] = chr(cp)
    s = "".join(chars)
    check_write(ctx, w, s)
    ctx.case(case, _nontrivial(s, w), labels=(f"w={w}", "refused" if (not cp1252.encodable(s) or L > w - 1) else "stored"))


PAIR_CHARS = "\r\n\t\x0b\x0c\x1a\x1b \\\"'%/x0{}\x7f\xa0\xad\u20ac\u2026\u0153\xe9\xff\x01a"


def enum_write(tier):
    cps = list(cp1252.ENCODABLE_CPS) + list(BAD_CPS)
    seen = set()
    # every ordered pair of characters that codecs / escapes / trimming treat specially, at the start, inside and at the end
    for w in (8, 32, 256):
        for a in PAIR_CHARS:
            for b in PAIR_CHARS:
                for where in ("start", "end", "alone"):
                    yield {"w": w, "pair": [ord(a), ord(b)], "where": where}
    for w in WIDTHS:
        lens = sorted({x for x in (0, 1, w - 2, w - 1, w, w + 1, w + 7) if x >= 0})
        for L in lens:
            for pos in ("first", "middle", "last"):
                idx = {"first": 0, "middle": L // 2, "last": L - 1}[pos] if L else -1
                for cp in cps:
                    k = (w, L, idx, cp if L else 0)
                    if k in seen:
                        continue
                    seen.add(k)
                    yield {"w": w, "len": L, "pos": pos, "cp": cp}


# ---------------------------------------------------------------------------------------
def text_strategy(tier):
    alphabet = st.one_of(
        st.sampled_from(cp1252.ENCODABLE_CHARS),
        st.sampled_from("0" + cp1252.HIGH_CHARS),
        st.characters(),  # all of Unicode, incl. NUL and surrogates
    )
    width = st.one_of(st.sampled_from(WIDTHS), st.integers(1, 300))

    @st.composite
    def cases(draw):
        w = draw(width)
        mode = draw(st.sampled_from(["any", "boundary", "boundary", "valid", "composable"]))
        if mode == "composable":
            s = draw(st.text(st.sampled_from(cp1252.ENCODABLE_CHARS), max_size=max(0, w - 4)))
            i = draw(st.integers(0, len(s)))
            s = s[:i] + draw(st.sampled_from(COMPOSABLE)) + s[i:]
            return {"w": w, "s": [ord(c) for c in s]}
        if mode == "boundary":
            n = max(0, w - 1 + draw(st.integers(-2, 2)))
            ab = alphabet if draw(st.booleans()) else st.sampled_from(cp1252.ENCODABLE_CHARS)
            s = draw(st.text(ab, min_size=n, max_size=n))
        elif mode == "valid":
            s = draw(st.text(st.sampled_from(cp1252.ENCODABLE_CHARS), max_size=max(0, w - 1)))
        else:
            s = draw(st.text(alphabet, max_size=w + 8))
        return {"w": w, "s": [ord(c) for c in s]}

    return cases()


def run_write_text(ctx, case):
    w, s = case["w"], "".join(chr(c) for c in case["s"])
    check_write(ctx, w, s)
    labels = ["nul" if "\x00" in s else ("unencodable" if not cp1252.encodable(s) else
                                        ("too-long" if len(s) > w - 1 else "stored"))]
    ctx.case(case, _nontrivial(s, w), labels=labels)


# ---------------------------------------------------------------------------------------
def bytes_strategy(tier):
    @st.composite
    def cases(draw):
        w = draw(st.one_of(st.sampled_from(WIDTHS), st.integers(1, 300)))
        mode = draw(st.sampled_from(["random", "text+garbage", "no-nul", "undefined"]))
        if mode == "random":
            b = draw(st.binary(min_size=w, max_size=w))
        elif mode == "no-nul":
            b = bytes(draw(st.lists(st.sampled_from(sorted(cp1252.BYTE_TO_CP)[1:]), min_size=w, max_size=w)))
        else:
            n = draw(st.integers(0, max(0, w - 1)))
            pool = sorted(cp1252.BYTE_TO_CP)[1:]
            head = bytes(draw(st.lists(st.sampled_from(pool), min_size=n, max_size=n)))
            if mode == "undefined" and n:
                i = draw(st.integers(0, n - 1))
                head = head[:i] + bytes([draw(st.sampled_from(cp1252.UNDEFINED_BYTES))]) + head[i + 1:]
            tail = draw(st.binary(min_size=w - n - 1, max_size=w - n - 1))
            b = head + b"\x00" + tail
        return {"w": w, "hex": b.hex()}

    return cases()


def run_read(ctx, case):
    B = _lib()
    w, b = case["w"], bytes.fromhex(case["hex"])
    want, undefined = cp1252.read_field(b)
    cut = b.split(b"\x00", 1)[0]
    results = []
    for how in ("read", "bread"):
        stream = io.BytesIO(b + b"SENTINEL")
        try:
            got = B.read(w, b) if how == "read" else B.bread(stream, w)
            exc = None
        except ValueError as e:
            got, exc = None, e
        except Exception as e:
            ctx.fail(f"read/raises-{type(e).__name__}", f"BTSString.{how}({w}, {b[:24]!r}..) raised {type(e).__name__}: {e}")
            return
        results.append((how, got, exc))
        if how == "bread" and exc is None and stream.tell() != w:
            ctx.fail("bread/consumed", f"bread consumed {stream.tell()} bytes of a {w}-byte field")
    for how, got, exc in results:
        if undefined:
            # bytes that have no meaning in cp1252 before the terminator: refusing is fine; returning
            # text is fine only if the defined positions are right and nothing beyond the NUL leaks in
            if exc is None:
                if len(got) != len(cut) or any(x not in cp1252.UNDEFINED_BYTES and got[i] != chr(cp1252.BYTE_TO_CP[x])
                                                 for i, x in enumerate(cut)):
                    ctx.fail("read/garbage-for-undefined", f"{how}: bytes {cut[:24]!r} decoded to {got[:24]!r}")
            continue
        if exc is not None:
            ctx.fail("read/refuses-valid", f"{how}({w}, {b[:24]!r}..) raised {exc}")
        elif got != want:
            ctx.fail("read/wrong-text", f"{how}({w}, {b[:24]!r}..) = {got[:40]!r}, table says {want[:40]!r}")
    nontriv = undefined or (want is not None and (not want.isascii() or len(cut) >= w - 1 or len(cut) == 0)) or (b"\x00" in b and any(b[len(cut) + 1:]))
    ctx.case(case, bool(nontriv), labels=("undefined-byte" if undefined else ("no-nul" if b"\x00" not in b else "nul-terminated"),))


# ---------------------------------------------------------------------------------------
# string sites inside blocks
F32 = lambda *v: struct.pack("<%df" % len(v), *v)  # noqa
I32 = lambda *v: struct.pack("<%di" % len(v), *v)  # noqa


def specs_mix(i):
    from ..specs import mix

    return mix(12345, i) >> 11


def _readers():
    """name -> reader(item bytes) -> text decoded by the library at that site"""
    import io as _io

    from basictdf.basictdf import TdfEntry
    from basictdf.tdfData3D import MarkerTrack
    from basictdf.tdfEMG import EMGTrack
    from basictdf.tdfEvents import Event
    from basictdf.tdfForce3D import ForceTorqueTrack
    from basictdf.tdfForcePlatformsCalibration import ForcePlatformInfo
    from basictdf.tdfOpticalSystem import OpticalChannelData

    S = _io.BytesIO
    return {
        "marker.label": lambda b: MarkerTrack._build(S(b), 2).label,
        "emg.label": lambda b: EMGTrack._build(S(b), 2).label,
        "force.label": lambda b: ForceTorqueTrack._build(S(b), 2).label,
        "platform.label": lambda b: ForcePlatformInfo._build(S(b)).label,
        "event.label": lambda b: Event._build(S(b)).label,
        "optical.lens": lambda b: OpticalChannelData._build(S(b)).lens_name,
        "optical.type": lambda b: OpticalChannelData._build(S(b)).camera_type,
        "optical.name": lambda b: OpticalChannelData._build(S(b)).camera_name,
        "entry.comment": lambda b: TdfEntry._build(S(b)).comment,
    }


def _sites():
    """name -> (width, writer(text) -> bytes, expected(textfield bytes) -> bytes)"""
    import numpy as np
    from basictdf.basictdf import TdfEntry
    from basictdf.tdfBlock import BlockType
    from basictdf.tdfData3D import MarkerTrack
    from basictdf.tdfEMG import EMGTrack
    from basictdf.tdfEvents import Event, EventsDataType
    from basictdf.tdfForce3D import ForceTorqueTrack
    from basictdf.tdfForcePlatformsCalibration import ForcePlatformInfo
    from basictdf.tdfOpticalSystem import OpticalChannelData
    from basictdf.tdfTypes import CameraViewPort

    def w_(obj):
        b = io.BytesIO()
        obj._write(b)
        return b.getvalue()

    seg = I32(1, 0) + I32(0, 2)
    d3 = np.array([[1, 2, 3], [4, 5, 6]], dtype="<f4")
    ap, fo, to = d3, d3 + 10, d3 + 20
    ft_rows = b"".join(F32(*ap[i]) + F32(*fo[i]) + F32(*to[i]) for i in range(2))
    pos = np.arange(12, dtype="<f4").reshape(4, 3)
    vp = lambda: CameraViewPort(np.array([1, 2], dtype="<i4"), np.array([3, 4], dtype="<i4"))  # noqa
    date = datetime.fromtimestamp(1_600_000_000)
    ehead = struct.pack("<IIiiiiii", 5, 1, 4096, 77, 1_600_000_000, 1_600_000_000, 1_600_000_000, 0)
    x32 = cp1252.field("x", 32)
    return {
        "marker.label": (256, lambda t: w_(MarkerTrack(t, d3.copy())), lambda f: f + seg + F32(*d3.ravel())),
        "emg.label": (256, lambda t: w_(EMGTrack(t, np.array([1.5, 2.5], dtype="<f4"))), lambda f: f + seg + F32(1.5, 2.5)),
        "force.label": (256, lambda t: w_(ForceTorqueTrack(t, ap.copy(), fo.copy(), to.copy())), lambda f: f + seg + ft_rows),
        "platform.label": (256, lambda t: w_(ForcePlatformInfo(t, np.array([0.5, 0.25], dtype="<f4"), pos.copy())),
                           lambda f: f + F32(0.5, 0.25) + F32(*pos.ravel()) + b"\x00" * 256),
        "event.label": (256, lambda t: w_(Event(t, [1.0], EventsDataType.singleEvent)), lambda f: f + struct.pack("<II", 0, 1) + F32(1.0)),
        "optical.lens": (32, lambda t: w_(OpticalChannelData(7, t, "x", "x", vp())), lambda f: I32(7, 0) + f + x32 + x32 + I32(1, 2, 3, 4)),
        "optical.type": (32, lambda t: w_(OpticalChannelData(7, "x", t, "x", vp())), lambda f: I32(7, 0) + x32 + f + x32 + I32(1, 2, 3, 4)),
        "optical.name": (32, lambda t: w_(OpticalChannelData(7, "x", "x", t, vp())), lambda f: I32(7, 0) + x32 + x32 + f + I32(1, 2, 3, 4)),
        "entry.comment": (256, lambda t: w_(TdfEntry(BlockType.data3D, 1, 4096, 77, date, date, date, t)), lambda f: ehead + f),
    }


def _site_objects():
    """name -> (make(text) -> item object, attribute holding the text, write(obj) -> bytes): the same OBJECT is written, relabelled and written again"""
    import numpy as np
    from basictdf.basictdf import TdfEntry
    from basictdf.tdfBlock import BlockType
    from basictdf.tdfData3D import MarkerTrack
    from basictdf.tdfEMG import EMGTrack
    from basictdf.tdfEvents import Event, EventsDataType
    from basictdf.tdfForce3D import ForceTorqueTrack
    from basictdf.tdfForcePlatformsCalibration import ForcePlatformInfo
    from basictdf.tdfOpticalSystem import OpticalChannelData
    from basictdf.tdfTypes import CameraViewPort

    d3 = np.array([[1, 2, 3], [4, 5, 6]], dtype="<f4")
    pos = np.arange(12, dtype="<f4").reshape(4, 3)
    vp = lambda: CameraViewPort(np.array([1, 2], dtype="<i4"), np.array([3, 4], dtype="<i4"))  # noqa
    date = datetime.fromtimestamp(1_600_000_000)
    return {
        "marker.label": (lambda t: MarkerTrack(t, d3.copy()), "label"),
        "emg.label": (lambda t: EMGTrack(t, np.array([1.5, 2.5], dtype="<f4")), "label"),
        "force.label": (lambda t: ForceTorqueTrack(t, d3.copy(), d3 + 10, d3 + 20), "label"),
        "platform.label": (lambda t: ForcePlatformInfo(t, np.array([0.5, 0.25], dtype="<f4"), pos.copy()), "label"),
        "event.label": (lambda t: Event(t, [1.0], EventsDataType.singleEvent), "label"),
        "optical.lens": (lambda t: OpticalChannelData(7, t, "x", "x", vp()), "lens_name"),
        "optical.type": (lambda t: OpticalChannelData(7, "x", t, "x", vp()), "camera_type"),
        "optical.name": (lambda t: OpticalChannelData(7, "x", "x", t, vp()), "camera_name"),
        "entry.comment": (lambda t: TdfEntry(BlockType.data3D, 1, 4096, 77, date, date, date, t), "comment"),
    }


def run_relabel(ctx, case):
    """one item object: written with text 1, its text attribute set to text 2, written again - the second write is held to text 2 alone
    (exact field bytes if valid, ValueError if not), whatever the first write may have remembered"""
    site = case["site"]
    s1, s2 = ("".join(chr(c) for c in case[k]) for k in ("s", "s2"))
    w, _, expected = _sites()[site]
    make, attr = _site_objects()[site]

    def write(o):
        b = io.BytesIO()
        o._write(b)
        return b.getvalue()

    ok, obj = ctx.must(lambda: make(s1), f"{site}/relabel/make", f"{site}: constructing an item with a valid text")
    if not ok:
        return
    if not hasattr(obj, attr):
        raise __import__("vf.env", fromlist=["HarnessError"]).HarnessError(f"{site}: no attribute {attr}")
    for _ in range(case.get("writes_before", 1)):
        ctx.must(lambda: write(obj), f"{site}/relabel/first-write", f"{site}: writing an item with a valid text")
        if case.get("also_nbytes"):
            getattr(obj, "nBytes", None)
    setattr(obj, attr, s2)
    valid2 = cp1252.encodable(s2) and len(s2) <= w - 1
    try:
        out = write(obj)
        exc = None
    except ValueError as e:
        out, exc = None, e
    except Exception as e:
        from ..core import lib_frame

        if lib_frame(e) is None:
            raise
        ctx.fail(f"{site}/relabel/raises-{type(e).__name__}", f"{site}: writing after the text was changed raised {type(e).__name__}: {e}")
        return
    if valid2:
        if exc is not None:
            ctx.fail(f"{site}/relabel/refuses-valid", f"{site}: after the text was changed to a valid one ({len(s2)} chars) the write raised {exc}")
        elif out != expected(cp1252.field(s2, w)):
            ctx.fail(f"{site}/relabel/stale-or-wrong-bytes", f"{site}: written once with {s1[:20]!r}, text then changed to {s2[:20]!r}: the second write does not carry the new text")
    elif exc is None:
        ctx.fail(f"{site}/relabel/accepts-invalid", f"{site}: written once with a valid text, then given an invalid one ({len(s2)} chars, encodable={cp1252.encodable(s2)}): "
                                                    f"the second write produced {len(out)} bytes instead of ValueError")
    ctx.case(case, True, labels=(site, "relabel:" + ("valid" if valid2 else "refused")))


def relabel_strategy(tier):
    @st.composite
    def cases(draw):
        site = draw(st.sampled_from(SITE_NAMES))
        w = 32 if site.startswith("optical") else 256
        ab = st.sampled_from(cp1252.ENCODABLE_CHARS)
        s1 = draw(st.text(ab, max_size=w - 1))
        kind = draw(st.sampled_from(["short", "short", "max", "over1", "bad", "empty", "longer", "shorter"]))
        if kind == "max":
            s2 = draw(st.text(ab, min_size=w - 1, max_size=w - 1))
        elif kind == "over1":
            s2 = draw(st.text(ab, min_size=w, max_size=w))
        elif kind == "bad":
            s2 = draw(st.text(ab, max_size=w - 3)) + draw(st.sampled_from(BAD_CPS).map(chr))
        elif kind == "empty":
            s2 = ""
        elif kind == "longer":
            s2 = s1 + draw(st.text(ab, min_size=1, max_size=max(1, w - 1 - len(s1))))[:max(0, w - 1 - len(s1))] or "z"
        elif kind == "shorter":
            s2 = s1[:len(s1) // 2]
        else:
            s2 = draw(st.text(ab, max_size=w - 1))
        return {"site": site, "s": [ord(c) for c in s1], "s2": [ord(c) for c in s2], "writes_before": draw(st.sampled_from([1, 1, 2])), "also_nbytes": draw(st.booleans())}

    return cases()


# ---------------------------------------------------------------------------------------
# several items in one block: every text field of every item is held to "text + NUL + zeros" (a writer that assembles the items in
# one buffer can leave the tail of an earlier, longer text behind a later, shorter one)
def multi_strategy(tier):
    from .c07 import LABELLED, labelled_spec

    @st.composite
    def cases(draw):
        t = draw(st.sampled_from(sorted(LABELLED)))
        k = draw(st.integers(2, 4))
        w = 32 if t == "optical" else 256
        spec = labelled_spec(t, k)
        ab = st.sampled_from(cp1252.ENCODABLE_CHARS)
        lens = draw(st.sampled_from(["descending", "descending", "random", "long-then-empty"]))
        for i, it in enumerate(spec[LABELLED[t]]):
            n = {"descending": max(0, (w - 1) - i * draw(st.integers(1, max(1, w // k))) ), "long-then-empty": (w - 1 if i == 0 else 0),
                 "random": draw(st.integers(0, w - 1))}[lens]
            for key in (("lens", "type", "name") if t == "optical" else ("label",)):
                it[key] = draw(st.text(ab, min_size=n, max_size=n))
        return {"spec": spec}

    return cases()


def run_multi(ctx, case):
    spec = case["spec"]
    t = spec["t"]
    ref, spans = reftdf.encode(spec, with_spans=True)
    ok, blk = ctx.must(lambda: specs.build(spec), f"multi/{t}/build", f"constructing a {t} block whose items carry valid texts")
    if not ok:
        return
    ok, w = ctx.must(lambda: specs.lib_write(blk), f"multi/{t}/write", f"writing a {t} block whose items carry valid texts")
    if not ok:
        return
    if len(w) != len(ref):
        ctx.fail(f"multi/{t}/length", f"{t}: block with {specs.n_items(spec)} items wrote {len(w)} bytes, the layout has {len(ref)}")
    tails = 0
    for s_, e_, c in spans:
        if c == "string-tail":
            tails += e_ - s_
            if w[s_:e_] != ref[s_:e_]:
                k = next(i for i in range(s_, e_) if w[i] != ref[i])
                ctx.fail(f"multi/{t}/field-not-zero-padded", f"{t}: block with {specs.n_items(spec)} items: byte {k} behind the terminator of a text field is "
                                                             f"{w[k]:#04x}, not zero (field bytes {s_}..{e_})")
            if s_ > 0 and w[s_ - 1] != ref[s_ - 1]:
                ctx.fail(f"multi/{t}/text-differs", f"{t}: the text field ending at byte {e_} does not carry the item's text")
    ctx.case(case, tails > 0, labels=(f"multi:{t}", f"items={specs.n_items(spec)}"))


SITE_NAMES = ["marker.label", "emg.label", "force.label", "platform.label", "event.label",
              "optical.lens", "optical.type", "optical.name", "entry.comment"]


def sites_strategy(tier):
    @st.composite
    def cases(draw):
        site = draw(st.sampled_from(SITE_NAMES))
        w = 32 if site.startswith("optical") else 256
        kind = draw(st.sampled_from(["max", "max", "over", "over1", "short", "bad", "pair", "pair"]))
        if kind == "pair":
            a, b = draw(st.sampled_from(PAIR_CHARS)), draw(st.sampled_from(PAIR_CHARS))
            core = draw(st.text(st.sampled_from("abc"), max_size=3))
            s = draw(st.sampled_from([a + b + core, core + a + b, a + core + b, a + b]))
            return {"site": site, "s": [ord(c) for c in s]}
        ab = st.sampled_from(cp1252.ENCODABLE_CHARS)
        if kind == "max":
            s = draw(st.text(ab, min_size=w - 1, max_size=w - 1))
        elif kind == "over1":
            s = draw(st.text(ab, min_size=w, max_size=w))
        elif kind == "over":
            s = draw(st.text(ab, min_size=w, max_size=w + 40))
        elif kind == "short":
            s = draw(st.text(ab, max_size=w - 1))
        else:
            s = draw(st.text(ab, max_size=w - 3))
            i = draw(st.integers(0, len(s)))
            bad = draw(st.one_of(st.sampled_from(BAD_CPS).map(chr), st.sampled_from(COMPOSABLE)))
            s = s[:i] + bad + s[i:]
        return {"site": site, "s": [ord(c) for c in s]}

    return cases()


class Fancy(str):
    """a str subclass whose renderings are not its content (what (str, Enum) members, translation proxies and tagged strings are)"""

    def __str__(self):
        return "Fancy.MEMBER"

    def __repr__(self):
        return "<Fancy.MEMBER: ...>"

    def __format__(self, spec):
        return "Fancy.MEMBER"


def fancy(s):
    if len(s) % 2 and s:
        from enum import Enum

        try:
            return Enum("Gait", {"MEMBER": s}, type=str).MEMBER   # its str() is 'Gait.MEMBER' (or the value, depending on the Python version)
        except Exception:  # noqa
            pass
    return Fancy(s)


def lib_frame_(e):
    from ..core import lib_frame

    return lib_frame(e)


def run_sites(ctx, case):
    site, s = case["site"], "".join(chr(c) for c in case["s"])
    ctx.label("after-a-read-with-encoding:" + str(foreign_read(len(s) + sum(case["s"][:2]))))
    w, writer, expected = _sites()[site]
    valid = cp1252.encodable(s) and len(s) <= w - 1
    try:
        out = writer(s)
        exc = None
    except ValueError as e:
        out, exc = None, e
    except Exception as e:
        from ..core import lib_frame

        if lib_frame(e) is None:
            raise
        ctx.fail(f"{site}/raises-{type(e).__name__}", f"{site} with {s[:30]!r}: {type(e).__name__}: {e}")
        return
    if valid:
        if exc is not None:
            ctx.fail(f"{site}/refuses-valid", f"{site}: valid text of {len(s)} chars refused: {exc}")
        else:
            want = expected(cp1252.field(s, w))
            ok, back = ctx.must(lambda: _readers()[site](want), f"{site}/read-back", f"{site}: decoding an item that carries a valid text of {len(s)} chars")
            if ok and back != s:
                i = next((k for k in range(min(len(back), len(s))) if back[k] != s[k]), min(len(back), len(s)))
                ctx.fail(f"{site}/read-back-differs", f"{site}: text of {len(s)} chars reads back differently (first difference at char {i}: "
                                                      f"{back[i:i + 1]!r} vs {s[i:i + 1]!r}, lengths {len(back)} vs {len(s)})")
            # read side of the same site with arbitrary bytes behind the terminator (what BTS software leaves there)
            enc = cp1252.encode(s)
            if len(enc) < w - 1:
                tail = bytes((specs_mix(len(s) * 131 + i) % 255) + 1 for i in range(w - len(enc) - 1))
                ok, back2 = ctx.must(lambda: _readers()[site](expected(enc + b"\x00" + tail)), f"{site}/read-garbage-tail",
                                     f"{site}: decoding an item whose text field has garbage after the terminator")
                if ok and back2 != s:
                    ctx.fail(f"{site}/read-not-cut-at-terminator", f"{site}: text of {len(s)} chars followed by NUL and garbage reads back as {len(back2)} chars "
                                                                  f"({back2[:20]!r}...) instead of {s[:20]!r}")
            # the same text handed over as an instance of a str SUBCLASS whose str() / repr() / format() are not its content: it is that text
            # (refusing the object is within the property - storing one of its renderings is not)
            try:
                out_f = writer(fancy(s))
            except (ValueError, TypeError):
                out_f = None
            except Exception as e:  # noqa
                out_f = None
                if lib_frame_(e):
                    ctx.fail(f"{site}/str-subclass-raises-{type(e).__name__}", f"{site}: a str-subclass instance holding {s[:30]!r} made the writer raise {type(e).__name__}: {e}")
            if out_f is not None and out_f != want:
                ctx.fail(f"{site}/str-subclass-stored-as-something-else", f"{site}: a str-subclass instance whose content is {s[:30]!r} ({len(s)} chars) was stored, but not as that "
                                                                          f"text (first diff at {next((i for i in range(min(len(out_f), len(want))) if out_f[i] != want[i]), 'end')})")
            if out != want:
                ctx.fail(f"{site}/wrong-bytes", f"{site}: text of {len(s)} chars: item bytes differ from the layout "
                                                f"(len {len(out)} vs {len(want)}; first diff at "
                                                f"{next((i for i in range(min(len(out), len(want))) if out[i] != want[i]), 'end')})")
    else:
        if exc is not None:
            try:
                out_f = writer(fancy(s))
            except Exception:  # noqa - refused, as it has to be
                out_f = None
            if out_f is not None:
                ctx.fail(f"{site}/accepts-invalid-str-subclass", f"{site}: invalid text ({len(s)} chars, encodable={cp1252.encodable(s)}) handed over as a str-subclass instance "
                                                                 f"was written ({len(out_f)} bytes) instead of being refused")
        if exc is None:
            ctx.fail(f"{site}/accepts-invalid", f"{site}: invalid text ({len(s)} chars, encodable={cp1252.encodable(s)}) "
                                                f"was written ({len(out)} bytes) instead of ValueError")
        elif cp1252.encodable(s) and len(s) >= w:
            # refused because it is too long: then none of it may be in the stream - "never written without its terminator, never spills"
            make, attr = _site_objects()[site]
            obj = make("ok")
            setattr(obj, attr, s)
            stream = io.BytesIO()
            try:
                obj._write(stream)
            except Exception:  # noqa
                pass
            # a copy / deep copy / pickle round trip of the item is the same item: still refused, never a shortened text
            import copy as _copy
            import pickle

            for how, clone in (("copy.copy", _copy.copy), ("copy.deepcopy", _copy.deepcopy), ("pickle", lambda o: pickle.loads(pickle.dumps(o)))):
                try:
                    twin = clone(obj)
                except Exception:  # noqa - an item that cannot be cloned that way: nothing to hold it to
                    continue
                st2 = io.BytesIO()
                try:
                    twin._write(st2)
                    wrote = True
                except ValueError:
                    wrote = False
                except Exception as e:  # noqa
                    wrote = False
                    if lib_frame_(e):
                        cloned_wrong = f"{how}: {type(e).__name__}"
                        break
                if wrote:
                    cloned_wrong = f"{how}: wrote {len(st2.getvalue())} bytes, text now {len(str(getattr(twin, attr)))} chars"
                    break
            else:
                cloned_wrong = None
            if cloned_wrong:
                ctx.fail(f"{site}/clone-of-invalid-item-writable", f"{site}: an item carrying a text of {len(s)} chars is refused, but its clone is not ({cloned_wrong})")
            enc = cp1252.encode(s)
            if enc[:w] in stream.getvalue():
                ctx.fail(f"{site}/refused-text-left-in-stream", f"{site}: text of {len(s)} chars was refused with ValueError, but {w} bytes of it are in the stream "
                                                                f"({stream.tell()} bytes written, no terminator)")
    ctx.case(case, True, labels=(site, "valid" if valid else "refused"))


FILE_COMMENTS = ["", " ", "x", "Generated by basicTDF", "caf\u00e9 \u20ac", "a\r\nb", "tab\tend ", "c" * 255, "0", "None"]


def enum_file_comments(tier):
    """the entry comment through the FILE interface: a block added with comment c1 (or none), then replaced with comment c2 (or none),
    by replace_block or by the setter; every pair from a pool that has the empty string, blanks, the default text and the longest text"""
    for c1 in [None] + FILE_COMMENTS:
        for c2 in [None] + FILE_COMMENTS:
            for via in ("replace_block", "setter"):
                yield {"c1": c1, "c2": c2, "via": via}


def run_file_comments(ctx, case):
    import os

    from basictdf import Tdf

    from .. import env
    from .c07 import labelled_spec

    c1, c2, via = case["c1"], case["c2"], case["via"]
    d = env.fresh_dir()
    try:
        path = os.path.join(d, "c.tdf")
        t = Tdf.new(path)
        with t.allow_write() as w_:
            if c1 is None:
                w_.add_block(specs.build(labelled_spec("events", 1)))
            else:
                w_.add_block(specs.build(labelled_spec("events", 1)), c1)
            # two more blocks stored BEHIND it, each with a comment of its own: whatever happens to the first block, theirs stay theirs
            w_.add_block(specs.build(labelled_spec("optical", 1)), "behind it: one")
            w_.add_block(specs.build(labelled_spec("platCal", 1)), "behind it: two \u20ac")
        others = {reftdf.TYPE_CODE["optical"]: "behind it: one", reftdf.TYPE_CODE["platCal"]: "behind it: two \u20ac"}

        # what an acquisition program leaves in the file: behind the terminators of the two bystander comments lies the rest of an older, longer text
        raw_ = bytearray(open(path, "rb").read())
        for slot_, text_ in ((1, "behind it: one"), (2, "behind it: two \u20ac")):
            pos_ = 64 + 288 * slot_ + 32 + len(cp1252.encode(text_)) + 1
            end_ = 64 + 288 * (slot_ + 1)
            raw_[pos_:end_] = (b"\xe9 rest of an older, longer comment #" * 8)[:end_ - pos_]
        with open(path, "wb") as fh_:
            fh_.write(bytes(raw_))
        from basictdf.basictdf import TdfEntry

        for slot_, text_ in ((1, "behind it: one"), (2, "behind it: two \u20ac")):
            # an entry read and written again with nothing looked at in between: text, NUL, zeros
            out_ = io.BytesIO()
            TdfEntry._build(io.BytesIO(bytes(raw_[64 + 288 * slot_:64 + 288 * (slot_ + 1)])))._write(out_)
            if out_.getvalue()[32:] != cp1252.field(text_, 256):
                ctx.fail("file-comment/entry-rewritten/not-zero-padded", f"a table entry whose comment field held {text_!r}, a NUL and left-over bytes was read and written again: "
                                                                         f"the field is not the text followed by zeros")

        def by_type(where):
            parsed_ = reftdf.parse_container(open(path, "rb").read())
            if where != "add":
                for e in parsed_["entries"]:
                    if e["type"] in others and e["comment_raw"] != cp1252.field(others[e["type"]], 256):
                        ctx.fail(f"file-comment/{where}/rewritten-comment-not-zero-padded", f"{where}: the entry of the {reftdf.CODE_TYPE[e['type']]} block was written again (it moved "
                                                                                            f"up a slot); its comment field is not {others[e['type']]!r} followed by zeros")
            got = {e["type"]: e["comment"] for e in parsed_["entries"] if e["type"]}
            for code, want in others.items():
                if got.get(code) != want:
                    ctx.fail(f"file-comment/{where}/bystander-comment-changed", f"{where}: the comment of the {reftdf.CODE_TYPE[code]} block, which was not touched, reads "
                                                                                f"{got.get(code)!r}; it was stored as {want!r}")
            return got.get(reftdf.TYPE_CODE["events"])

        want1 = "Generated by basicTDF" if c1 is None else c1
        got1 = by_type("add")
        if got1 != want1:
            ctx.fail("file-comment/add/differs", f"add_block with comment {c1!r}: the entry holds {got1!r}")
        with Tdf(path).allow_write() as w_:
            if via == "setter":
                w_.events = specs.build(labelled_spec("events", 2))
                want2 = want1   # the setter takes no comment: the previous one stays
            elif c2 is None:
                w_.replace_block(specs.build(labelled_spec("events", 2)))
                want2 = want1
            else:
                w_.replace_block(specs.build(labelled_spec("events", 2)), c2)
                want2 = c2
        got2 = by_type(via)
        if got2 != want2:
            ctx.fail("file-comment/replace/differs", f"block added with comment {c1!r}, then replaced ({via}) with comment {c2!r}: the entry holds {got2!r}, expected {want2!r}")
        with Tdf(path) as r:
            mine = [e for e in r.entries if e.type.value == reftdf.TYPE_CODE["events"]]
            if len(mine) != 1 or mine[0].comment != want2:
                ctx.fail("file-comment/read-back/differs", f"after reopening, the entry comment reads {[e.comment for e in mine]!r}, expected {want2!r}")
            for e in r.entries:
                if e.type.value in others and e.comment != others[e.type.value]:
                    ctx.fail("file-comment/read-back/bystander-comment-changed", f"after reopening, the comment of the untouched {reftdf.CODE_TYPE[e.type.value]} block reads "
                                                                                 f"{e.comment!r}; it was stored as {others[e.type.value]!r}")
        if case["via"] == "replace_block" and case["c2"] is None:
            # ... and a plain removal of the first block
            from basictdf.tdfBlock import BlockType

            with Tdf(path).allow_write() as w_:
                w_.remove_block(BlockType(reftdf.TYPE_CODE["events"]))
            by_type("remove")
    finally:
        env.rmdir(d)
    ctx.case(case, c2 is not None or c1 is not None, labels=["file-comments", via])


def enum_site_pairs(tier):
    for site in SITE_NAMES:
        for a in PAIR_CHARS:
            for b in PAIR_CHARS:
                for s in (a + b, "ab" + a + b, a + b + "ab", a + "ab" + b):
                    yield {"site": site, "s": [ord(c) for c in s]}


SUBS = [
    Sub("write-exhaustive", run_write_enum, kind="enum", enumerate=enum_write, shards=(4, 16),
        rule="every cp1252 char + 12 non-encodable code points x position x width x boundary lengths (finite product, enumerated completely)"),
    Sub("write-text", run_write_text, strategy=text_strategy, budget=(3000, 200000), shards=(2, 16),
        rule="Hypothesis text over all of Unicode (NUL, surrogates, astral) x widths 1..300, boundary lengths over-weighted"),
    Sub("read-bytes", run_read, strategy=bytes_strategy, budget=(3000, 200000), shards=(2, 16),
        rule="Hypothesis byte strings of exactly the field width: random, text+NUL+garbage tail, NUL-free, undefined cp1252 bytes"),
    Sub("fuzz:read-bytes", run_read, kind="fuzz", fuzz_target=("hypothesis", "read-bytes"), budget=(0, 200000), shards=(1, 2),
        rule="Atheris/libFuzzer driving the read-bytes Hypothesis test through fuzz_one_input (library instrumented)"),
    Sub("fuzz:write-text", run_write_text, kind="fuzz", fuzz_target=("hypothesis", "write-text"), budget=(0, 200000), shards=(1, 2),
        rule="Atheris/libFuzzer driving the write-text Hypothesis test through fuzz_one_input (library instrumented)"),
    Sub("block-sites-pairs", run_sites, kind="enum", enumerate=enum_site_pairs, shards=(4, 16),
        rule="each of the 9 string sites x every ordered pair of 28 characters that codecs / escapes / line-ending handling / trimming treat specially x 4 placements "
             "(finite product, enumerated completely): write, exact bytes, read back, read back with garbage behind the terminator"),
    Sub("file-comments", run_file_comments, kind="enum", enumerate=enum_file_comments, shards=(4, 8),
        rule="entry comments through the file interface: add_block with c1, then replace_block / setter with c2, for every pair from {none, '', ' ', 'x', the default text, "
             "non-ASCII, CR LF, trailing blank, 255 chars, '0', 'None'}; raw entry bytes and the reopened file; finite, enumerated"),
    Sub("relabel", run_relabel, strategy=relabel_strategy, budget=(1200, 30000), shards=(2, 16),
        rule="each of the 9 string sites: ONE item object written, its text attribute changed (shorter / longer / boundary / too long / not encodable / empty), written again: "
             "the second write carries exactly the new text or raises ValueError"),
    Sub("multi-item-blocks", run_multi, strategy=multi_strategy, budget=(600, 15000), shards=(2, 16),
        rule="blocks of the six labelled types with 2..4 items whose texts get shorter from item to item: every byte behind every terminator is zero in the block's bytes"),
    Sub("block-sites", run_sites, strategy=sites_strategy, budget=(1500, 40000), shards=(2, 16),
        rule="each of the 9 string fields of item classes / table entries with text of width-1 (must store, next field intact), >= width or non-cp1252 (ValueError)"),
]
from ..core import optimised_child_sub  # noqa: E402
SUBS.append(optimised_child_sub("C13", ["write-exhaustive", "block-sites-pairs"]))
SUBS.append(optimised_child_sub("C13", ["write-exhaustive", "block-sites"], flags=("-bb",), name="under-python-bb",
                                what="comparing or formatting bytes as str raises BytesWarning: a refusal must still be the ValueError it is"))
