"""C14 - equality tells equal content from different content."""
import copy
import os

import numpy as np
from hypothesis import strategies as st

from .. import codec, env, reftdf, specs
from ..core import Sub

PROP = {
    "id": "C14",
    "level": "exploration",
    "technique": "Hypothesis-generated pairs (a, b) per (block type x relation): b = a, an independent rebuild of a, decode(encode(a)), or a with exactly one element/field changed, appended or removed; oracle: the expected truth value of a == b follows from the relation; both argument orders; file-level pairs built the same way (time stamps of the two files equalised); enumerated: every file relation (incl. a long-lived object compared after its file was edited through another object), operands whose arrays are views of one buffer, recordings of 65537 / 70000 frames",
    "level_text": ("Exploration over a (type x relation) matrix: every cell is its own Hypothesis test with its own finding key, so that several "
                   "independent root causes (prefix-only comparison, ignored channel map, NaN != NaN, missing value equality) are reported "
                   "separately. Expected answers are derived from how b was produced from a, never from the library."),
    "level_note": "Trusted: the spec mutators in this module (each changes exactly one thing and keeps the block valid). 'Beyond float tolerance' = the changed sample differs by more than 1 (absolute) from a value of magnitude <= 8. Item classes' own __eq__ is not asserted (the statement speaks of blocks and files).",
    "design_ref": "DESIGN.md section 3, C14",
    "rule": ("case = {spec, hints, pick}; relation fixed per sub-check; non-trivial = b differs from a, or a contains a missing-data gap; "
             "evidence lists the (type x relation) matrix with counts; distinct by sha1 of the case"),
    "assumptions": [],
}

ONE = 0x3F800000
THREE = 0x40400000
MINUS5 = 0xC0A00000
F64_3 = 0x4008000000000000
F64_M5 = 0xC014000000000000


def other32(bits):
    v = specs.f32_of(bits)
    return THREE if abs(v - 3.0) > 1.0 or v != v else MINUS5


def other64(bits):
    v = specs.f64_of(bits)
    return F64_3 if abs(v - 3.0) > 1.0 or v != v else F64_M5


def other_label(s, width):
    if s.swapcase() != s and specs.cp1252.encodable(s.swapcase()) and len(specs.cp1252.encode(s.swapcase())) == len(specs.cp1252.encode(s)):
        return s.swapcase()
    if len(s) < width - 1:
        return s + " "
    return ("y" if s[0] != "y" else "z") + s[1:]


def free_channel(used, lo, hi, pick):
    c = lo + pick % (hi - lo + 1)
    while c in used:
        c = c + 1 if c < hi else lo
    return c


def fresh_item(spec, pick):
    t = spec["t"]
    if t in specs.RLE_TYPES and spec[nframes_key(t)] > 100000:
        raise env.HarnessError("fresh_item on a block with an unallocatable frame count")
    if t == "data3D":
        return {"label": "new", "frames": [[ONE, ONE, ONE]] * spec["nFrames"]}
    if t == "emg":
        return {"label": "new", "channel": free_channel({g["channel"] for g in spec["signals"]}, 0, 32767, pick), "frames": [ONE] * spec["nSamples"]}
    if t == "force3D":
        return {"label": "new", "frames": [[ONE] * 9] * spec["nFrames"]}
    if t == "platData":
        return {"channel": free_channel({g["channel"] for g in spec["plats"]}, 0, 65535, pick), "frames": [[ONE] * 6] * spec["nFrames"]}
    if t == "platCal":
        return {"channel": free_channel({g["channel"] for g in spec["plats"]}, 0, 32767, pick), "label": "new", "size": [ONE, ONE], "position": [ONE] * 12}
    if t == "optical":
        return {"index": 1, "lens": "l", "type": "t", "name": "n", "vp": [0, 0, 1, 1]}
    if t == "events":
        return {"label": "new", "type": 0, "values": [ONE]}
    if t == "calib":
        c = {"rot": [0] * 9, "trans": [0] * 3, "focus": [0] * 2, "center": [0] * 2, "vp": [0, 0, 1, 1]}
        if spec["format"] == 1:
            c.update(radial=[0, 0], decentering=[0, 0], prism=[0, 0])
        else:
            c.update(xd=[0] * 70, yd=[0] * 70)
        return c
    raise KeyError(t)


def nframes_key(t):
    return {"data3D": "nFrames", "emg": "nSamples", "force3D": "nFrames", "platData": "nFrames"}[t]


def small_block(t):
    """blocks whose frame count is free to change (no items)"""
    return t


# relation name -> function(a_spec, pick) -> (a, b) specs (deep copies) or None when not applicable
def rel_append(a, pick):
    b = copy.deepcopy(a)
    t = a["t"]
    if t == "data2D":
        b["nCams"] += 1
        b["camMap"].append(free_channel(set(b["camMap"]), 0, 32767, pick))
        for row in b["cells"]:
            row.append([[ONE, ONE]])
        return a, b
    its = codec.items(b)
    its.append(fresh_item(a, pick))
    if t == "calib":
        b["map"].append(pick % 100)
    b["_chmode"] = "explicit"
    a = copy.deepcopy(a)
    a["_chmode"] = "explicit"
    return a, b


def _drop(a, idx):
    b = copy.deepcopy(a)
    t = a["t"]
    if t == "data2D":
        if a["nCams"] == 0:
            return None
        b["nCams"] -= 1
        del b["camMap"][idx % a["nCams"]]
        for row in b["cells"]:
            del row[idx % a["nCams"]]
        return a, b
    its = codec.items(b)
    if not its:
        return None
    k = idx % len(its)
    del its[k]
    if t == "calib":
        del b["map"][k]
    a = copy.deepcopy(a)
    a["_chmode"] = b["_chmode"] = "explicit"
    return a, b


def rel_drop_last(a, pick):
    n = specs.n_items(a)
    return _drop(a, n - 1) if n else None


def rel_drop_middle(a, pick):
    n = specs.n_items(a)
    return _drop(a, 1 + pick % (n - 2)) if n >= 3 else None


INT_KEYS = {"channel", "index", "vp", "type", "camMap"}


def _f_of(bits, wide):
    import struct

    return struct.unpack("<d", struct.pack("<Q", bits))[0] if wide else struct.unpack("<f", struct.pack("<I", bits & 0xFFFFFFFF))[0]


def clearly_different(x, y, wide=False, key=None):
    """do two items (or parts of items) differ in a way every faithful comparison must see: a text, an integer, the presence of a value,
    or a number by a clear margin? Signed zeros, or numbers closer than 0.1 %, are NOT a clear difference (the statement says 'beyond
    float tolerance'); such pairs are simply not used as witnesses."""
    if isinstance(x, dict) and isinstance(y, dict):
        return set(x) != set(y) or any(clearly_different(x[k], y[k], wide, k) for k in x)
    if isinstance(x, list) and isinstance(y, list):
        return len(x) != len(y) or any(clearly_different(p, q, wide, key) for p, q in zip(x, y))
    if (x is None) != (y is None):
        return True
    if x is None:
        return False
    if isinstance(x, str) or isinstance(y, str) or key in INT_KEYS:
        return x != y
    if isinstance(x, int) and isinstance(y, int):
        p, q = _f_of(x, wide), _f_of(y, wide)
        if p != p or q != q:
            return (p != p) != (q != q)
        return abs(p - q) > 1e-3 * max(1.0, abs(p), abs(q))
    return x != y


def rel_swap(a, pick):
    """two adjacent, different items exchanged (order of tracks / signals / ... is content)"""
    t = a["t"]
    b = copy.deepcopy(a)
    if t == "data2D":
        if a["nCams"] < 2:
            return None
        i = pick % (a["nCams"] - 1)
        same = a["camMap"][i] == a["camMap"][i + 1] and not any(clearly_different(row[i], row[i + 1]) for row in a["cells"])
        if same:
            return None
        b["camMap"][i], b["camMap"][i + 1] = b["camMap"][i + 1], b["camMap"][i]
        for row in b["cells"]:
            row[i], row[i + 1] = row[i + 1], row[i]
        return a, b
    its = codec.items(b)
    if len(its) < 2:
        return None
    i = pick % (len(its) - 1)
    if not clearly_different(its[i], its[i + 1], wide=(t == "calib")) and (t != "calib" or a["map"][i] == a["map"][i + 1]):
        return None
    its[i], its[i + 1] = its[i + 1], its[i]
    if t == "calib":
        b["map"][i], b["map"][i + 1] = b["map"][i + 1], b["map"][i]
    a = copy.deepcopy(a)
    a["_chmode"] = b["_chmode"] = "explicit"
    return a, b


def rel_duplicate(a, pick):
    """item i becomes a copy of a different item j (the multiset of items changes, the length does not)"""
    t = a["t"]
    if t == "data2D":
        return None
    its = codec.items(a)
    if len(its) < 2:
        return None
    i = pick % len(its)
    j = (i + 1 + (pick // 7) % (len(its) - 1)) % len(its)
    strip = lambda it: {k: v for k, v in it.items() if k != "channel"}  # noqa
    if not clearly_different(strip(its[i]), strip(its[j]), wide=(t == "calib")):
        return None
    if t == "platData":
        return None  # no labels; sample equality is tolerance based, so two items may differ only below tolerance
    if t == "platCal" and its[i]["label"] == its[j]["label"]:
        return None  # size / position are compared with a tolerance: require a clear (label) difference
    b = copy.deepcopy(a)
    bi = codec.items(b)
    ch = bi[i].get("channel")
    bi[i] = copy.deepcopy(bi[j])
    if ch is not None:
        bi[i]["channel"] = ch  # channels stay unique; only the item's content is duplicated
    a = copy.deepcopy(a)
    a["_chmode"] = b["_chmode"] = "explicit"
    return a, b


def rel_d3_format(a, pick):
    """3D data: with-links format (no links) vs without-links format"""
    if a["t"] != "data3D":
        return None
    a = copy.deepcopy(a)
    a["format"], a["links"] = 1, []
    b = copy.deepcopy(a)
    b["format"], b["links"] = 2, None
    return a, b


def rel_label(a, pick):
    its = codec.items(a) if a["t"] != "data2D" else None
    if not its:
        return None
    b = copy.deepcopy(a)
    it = codec.items(b)[pick % len(its)]
    if a["t"] == "optical":
        f = ("lens", "type", "name")[(pick // 7) % 3]
        it[f] = other_label(it[f] or "", 32) if it[f] else "x"
    elif "label" in it:
        it["label"] = other_label(it["label"], 256) if it["label"] else "x"
    else:
        return None
    return a, b


# distinct cp1252 strings that a normalising / folding / trimming comparison would identify (compatibility forms, typographic
# look-alikes, case folds, white space): two blocks that differ in exactly such a pair are still different blocks
CONFUSABLE = [("Plataforma n\u00ba2", "Plataforma no2"), ("a\u00a0b", "a b"), ("x\u00b2", "x2"), ("x\u00b9", "x1"), ("x\u00b3", "x3"), ("wait\u2026", "wait..."),
              ("BTS\u2122", "BTSTM"), ("1\u00aa", "1a"), ("stra\u00dfe", "strasse"), ("STRASSE", "stra\u00dfe"), ("c\u0153ur", "coeur"), ("\u00c6on", "AEon"),
              ("it\u2019s", "it's"), ("\u201cq\u201d", '"q"'), ("a\u2013b", "a-b"), ("a\u2014b", "a-b"), ("a\u00adb", "ab"), ("a\u00b7b", "a.b"), ("tab\there", "tab here"),
              ("line\nbreak", "line break"), ("cr\r\nlf", "cr\nlf"), ("two  spaces", "two spaces"), (" lead", "lead"), ("trail ", "trail"), ("\u00b5V", "uV"),
              ("\u00bd", "1/2"), ("\u00e9", "e"), ("\u00c9", "\u00e9"), ("\u0160", "S"), ("\u017d", "Z"), ("0", "O"), ("l", "1"), ("a", "A"), ("", " ")]


def rel_label_confusable(a, pick):
    its = codec.items(a) if a["t"] != "data2D" else None
    if not its:
        return None
    x, y = CONFUSABLE[pick % len(CONFUSABLE)]
    if (pick // len(CONFUSABLE)) % 2:
        x, y = y, x
    a, b = copy.deepcopy(a), copy.deepcopy(a)
    i = (pick // 3) % len(its)
    f = ("lens", "type", "name")[(pick // 7) % 3] if a["t"] == "optical" else "label"
    if f not in codec.items(a)[i]:
        return None
    codec.items(a)[i][f], codec.items(b)[i][f] = x, y
    return a, b


def rel_channel(a, pick):
    t = a["t"]
    b = copy.deepcopy(a)
    if t == "data2D":
        if not a["camMap"]:
            return None
        k = pick % len(a["camMap"])
        b["camMap"][k] = free_channel(set(a["camMap"]), 0, 32767, pick // 3)
        return a, b
    if t == "calib":
        if not a["map"]:
            return None
        k = pick % len(a["map"])
        b["map"][k] = a["map"][k] + 1 if a["map"][k] < 32767 else 0
        return a, b
    if t in ("emg", "platData", "platCal"):
        its = codec.items(b)
        if not its:
            return None
        k = pick % len(its)
        hi = 65535 if t == "platData" else 32767
        its[k]["channel"] = free_channel({g["channel"] for g in its}, 0, hi, pick // 3)
        a = copy.deepcopy(a)
        a["_chmode"] = b["_chmode"] = "explicit"
        return a, b
    return None


SCALARS = {
    "data3D": ["frequency", "startTime", "volume", "rot", "trans", "flag", "nFrames"],
    "emg": ["frequency", "startTime", "nSamples"],
    "force3D": ["frequency", "startTime", "volume", "rot", "trans", "nFrames"],
    "platData": ["frequency", "startTime", "nFrames"],
    "platCal": [],
    "data2D": ["frequency", "startTime", "flags"],
    "calib": ["model", "volume", "rot", "trans", "format"],
    "optical": [],
    "events": ["startTime"],
}


def ulp32(bits):
    """the neighbouring float32 (one unit in the last place away), staying finite and keeping the sign"""
    m = bits & 0x7FFFFFFF
    return bits + 1 if m < 0x7F7FFFFF else bits - 1


def rel_ulp(field):
    """a float header scalar changed by ONE ulp: header scalars are compared exactly (tolerance is stated for samples only)"""
    def f(a, pick):
        if field not in a:
            return None
        b = copy.deepcopy(a)
        if field == "startTime":
            b[field] = ulp32(a[field])
        else:
            k = [0, len(a[field]) - 1, pick % len(a[field])][pick % 3]
            b[field][k] = ulp32(a[field][k])
        return a, b

    return f


def _index(pick, n):
    """first, last or a random index"""
    return [0, n - 1, (pick // 3) % n][pick % 3]


def rel_scalar(field):
    def f(a, pick):
        t = a["t"]
        b = copy.deepcopy(a)
        if field in ("nFrames", "nSamples"):
            if specs.n_items(a):
                return None
            b[field] = a[field] + 1 if a[field] < specs.I32_MAX else a[field] - 1
        elif field == "frequency":
            b[field] = a[field] + 1 if a[field] < specs.I32_MAX else a[field] - 1
        elif field == "startTime":
            b[field] = other32(a[field])
        elif field in ("volume", "rot", "trans"):
            k = _index(pick, len(a[field]))
            b[field][k] = other32(a[field][k])
        elif field in ("flag", "flags"):
            b[field] = 1 - a[field]
        elif field == "model":
            b[field] = (a[field] + 1 + pick % 3) % 4
        elif field == "format":  # calib with no cameras: Seelab1 <-> BTS
            if a["cams"]:
                return None
            b[field] = 3 - a[field]
        return a, b

    return f


def _present_frame(a, b, pick):
    """index (item, frame) of a present frame; if the picked item has none, frame 0 is made present in both"""
    its_a, its_b = codec.items(a), codec.items(b)
    k = pick % len(its_a)
    frames = its_a[k]["frames"]
    present = [i for i, f in enumerate(frames) if f is not None]
    if not present:
        pf = specs.PER_FRAME[a["t"]]
        v = ONE if pf == 1 else [ONE] * pf
        its_a[k]["frames"][0] = v
        its_b[k]["frames"][0] = copy.deepcopy(v)
        present = [0]
    return k, present[_index(pick // 5, len(present))]


def rel_sample(a, pick, other32=None, other64=None):
    other32 = other32 or globals()["other32"]
    other64 = other64 or globals()["other64"]
    t = a["t"]
    a = copy.deepcopy(a)
    b = copy.deepcopy(a)
    if t in specs.RLE_TYPES:
        if not codec.items(a):
            return None
        k, i = _present_frame(a, b, pick)
        fr = codec.items(b)[k]["frames"]
        if specs.PER_FRAME[t] == 1:
            fr[i] = other32(fr[i])
        else:
            c = (pick // 11) % len(fr[i])
            fr[i] = list(fr[i])
            fr[i][c] = other32(fr[i][c])
        return a, b
    if t == "data2D":
        cells = [(f, c) for f in range(a["nFrames"]) for c in range(a["nCams"]) if a["cells"][f][c]]
        if not cells:
            return None
        f, c = cells[pick % len(cells)]
        cell = b["cells"][f][c]
        p = (pick // 7) % len(cell)
        cell[p] = [other32(cell[p][0]), cell[p][1]] if pick % 2 else [cell[p][0], other32(cell[p][1])]
        return a, b
    if t == "events":
        evs = [i for i, e in enumerate(a["events"]) if e["values"]]
        if not evs:
            return None
        e = b["events"][evs[pick % len(evs)]]
        j = (pick // 7) % len(e["values"])
        e["values"][j] = other32(e["values"][j])
        return a, b
    if t == "platCal":
        if not a["plats"]:
            return None
        p = b["plats"][pick % len(a["plats"])]
        if pick % 2:
            p["size"][pick // 2 % 2] = other32(p["size"][pick // 2 % 2])
        else:
            p["position"][pick // 2 % 12] = other32(p["position"][pick // 2 % 12])
        return a, b
    if t == "calib":
        if not a["cams"]:
            return None
        c = b["cams"][pick % len(a["cams"])]
        fields = [f for f in ("rot", "trans", "focus", "center", "radial", "decentering", "prism", "xd", "yd") if f in c]
        f = fields[(pick // 3) % len(fields)]
        j = (pick // 29) % len(c[f])
        c[f][j] = other64(c[f][j])
        return a, b
    return None


def neutral32(bits, variant=0):
    """another finite float32 whose four bytes have the same byte sum, the same position-weighted sum (consecutive deltas +1,-2,+1 or
    -1,+2,-1: what Adler / Fletcher style checksums see), or the same XOR (one bit flipped in two bytes), or are a permutation of the
    original bytes - and which differs from the original by far more than any comparison tolerance (the exponent byte takes part)"""
    b = list(int(bits).to_bytes(4, "little"))
    cands = []
    for d in ((1, -2, 1), (-1, 2, -1)):
        c = [b[0], b[1] + d[0], b[2] + d[1], b[3] + d[2]]
        cands.append(c)
    cands.append([b[0], b[1], b[2] ^ 0x20, b[3] ^ 0x20])
    cands.append([b[0], b[1], b[3], b[2]])
    cands.append([b[0], b[1] ^ 0x10, b[2], b[3] ^ 0x10])
    for k in range(len(cands)):
        c = cands[(variant + k) % len(cands)]
        if all(0 <= x <= 255 for x in c) and c != b:
            v = int.from_bytes(bytes(c), "little")
            if (v >> 23) & 0xFF != 0xFF and (v >> 23) & 0xFF != 0 and (bits >> 23) & 0xFF != 0:
                return v
    return other32(bits)


def rel_sample_neutral(a, pick):
    return rel_sample(a, pick, other32=lambda bits: neutral32(bits, pick // 13))


def rel_cam_field(field):
    def f(a, pick):
        cams = [i for i, c in enumerate(a["cams"]) if field in c]
        if a["t"] != "calib" or not cams:
            return None
        b = copy.deepcopy(a)
        c = b["cams"][cams[_index(pick // 5, len(cams))]]
        j = _index(pick, len(c[field]))
        c[field][j] = other64(c[field][j])
        return a, b

    return f


CAM_FIELDS = ("rot", "trans", "focus", "center", "radial", "decentering", "prism", "xd", "yd")


def rel_plat_field(field):
    def f(a, pick):
        if a["t"] != "platCal" or not a["plats"]:
            return None
        b = copy.deepcopy(a)
        p = b["plats"][pick % len(a["plats"])]
        j = (pick // 7) % len(p[field])
        p[field][j] = other32(p[field][j])
        return a, b

    return f


def rel_viewport(a, pick):
    t = a["t"]
    its = codec.items(a)
    if t not in ("calib", "optical") or not its:
        return None
    b = copy.deepcopy(a)
    it = codec.items(b)[pick % len(its)]
    j = (pick // 3) % 4
    it["vp"][j] = it["vp"][j] + 1 if it["vp"][j] < specs.I32_MAX else it["vp"][j] - 1
    return a, b


def rel_index(a, pick):
    if a["t"] != "optical" or not a["channels"]:
        return None
    b = copy.deepcopy(a)
    c = b["channels"][pick % len(a["channels"])]
    c["index"] = c["index"] + 1 if c["index"] < specs.I32_MAX else c["index"] - 1
    return a, b


def rel_gap(a, pick):
    """one frame changes between present and missing"""
    if a["t"] not in specs.RLE_TYPES or not codec.items(a):
        return None
    b = copy.deepcopy(a)
    its = codec.items(b)
    k = pick % len(its)
    fr = its[k]["frames"]
    i = (pick // 5) % len(fr)
    pf = specs.PER_FRAME[a["t"]]
    fr[i] = None if fr[i] is not None else (ONE if pf == 1 else [ONE] * pf)
    return a, b


def rel_link(a, pick):
    if a["t"] != "data3D" or a["format"] != 1:
        return None
    b = copy.deepcopy(a)
    if a["links"] and pick % 3:
        l = b["links"][pick % len(a["links"])]
        l[pick // 3 % 2] = (l[pick // 3 % 2] + 1) % 2 ** 32
    else:
        b["links"].append([1, 2])
    return a, b


def rel_event_type(a, pick):
    if a["t"] != "events":
        return None
    evs = [i for i, e in enumerate(a["events"]) if len(e["values"]) <= 1]
    if not evs:
        return None
    b = copy.deepcopy(a)
    e = b["events"][evs[pick % len(evs)]]
    e["type"] = 1 - e["type"]
    return a, b


def rel_event_count(a, pick):
    if a["t"] != "events":
        return None
    evs = [i for i, e in enumerate(a["events"]) if e["type"] == 1]
    if not evs:
        return None
    b = copy.deepcopy(a)
    b["events"][evs[pick % len(evs)]]["values"].append(ONE)
    return a, b


EQUAL_RELS = ("same", "rebuilt", "roundtrip", "subclass-roundtrip")
DIFF_RELS = {"make-duplicate": rel_duplicate, "swap-items": rel_swap, "d3-format": rel_d3_format, "append-item": rel_append, "drop-last": rel_drop_last, "drop-middle": rel_drop_middle, "label": rel_label, "label-confusable": rel_label_confusable,
             "channel": rel_channel, "sample": rel_sample, "sample-checksum-neutral": rel_sample_neutral, "viewport": rel_viewport, "camera-index": rel_index, "gap": rel_gap,
             "link": rel_link, "event-type": rel_event_type, "event-count": rel_event_count}
for _f in CAM_FIELDS:
    DIFF_RELS["camera:" + _f] = rel_cam_field(_f)
for _f in ("size", "position"):
    DIFF_RELS["platform:" + _f] = rel_plat_field(_f)
for _f in ("frequency", "startTime", "volume", "rot", "trans", "flag", "flags", "nFrames", "nSamples", "model", "format"):
    DIFF_RELS["scalar:" + _f] = rel_scalar(_f)
for _f in ("startTime", "volume", "rot", "trans"):
    DIFF_RELS["ulp:" + _f] = rel_ulp(_f)


def relations_for(t):
    rels = list(EQUAL_RELS) + ["append-item", "drop-last", "drop-middle", "swap-items"]
    if t not in ("data2D", "platData"):
        rels.append("make-duplicate")
    if t == "data3D":
        rels.append("d3-format")
    if t != "optical":
        rels.append("sample")
    if t in ("data3D", "force3D", "events"):
        # (only where samples are compared exactly: platform data / calibration, EMG and 2D points use a tolerance, under which a
        #  tiny value and four times that value are the same)
        rels.append("sample-checksum-neutral")
    if t in ("data3D", "emg", "force3D", "platCal", "optical", "events"):
        rels += ["label", "label-confusable"]
    if t in ("emg", "platData", "platCal", "data2D", "calib"):
        rels.append("channel")
    if t in specs.RLE_TYPES:
        rels.append("gap")
    if t in ("calib", "optical"):
        rels.append("viewport")
    if t == "optical":
        rels.append("camera-index")
    if t == "calib":
        rels += ["camera:" + f for f in CAM_FIELDS]
    if t == "platCal":
        rels += ["platform:size", "platform:position"]
    if t == "data3D":
        rels.append("link")
    if t == "events":
        rels += ["event-type", "event-count"]
    rels += ["scalar:" + f for f in SCALARS[t]]
    rels += ["ulp:" + f for f in SCALARS[t] if f in ("startTime", "volume", "rot", "trans")]
    return rels


def has_gap(spec):
    return spec["t"] in specs.RLE_TYPES and any(f is None for it in codec.items(spec) for f in it["frames"])


def compare(ctx, t, rel, x, y, expect, order):
    try:
        r = x == y
        r = bool(r)
    except Exception as e:  # noqa
        from ..core import lib_frame

        if lib_frame(e) is None and not isinstance(e, (TypeError, ValueError, AttributeError)):
            raise
        ctx.fail(f"{rel}/comparison-raises-{type(e).__name__}", f"{t}: comparing two {t} blocks ({rel}, {order}) raised {type(e).__name__}: {str(e)[:100]}")
        return
    if r != expect:
        ctx.fail(f"{rel}/{'reported-different' if expect else 'reported-equal'}",
                 f"{t}: blocks related by '{rel}' compare {'unequal' if expect else 'EQUAL'} ({order})")


def make_run(t, rel):
    def run(ctx, case):
        spec, hints, pick = case["spec"], case.get("hints"), case.get("pick", 0)
        if rel in EQUAL_RELS:
            a_spec = spec
            ok, a = ctx.must(lambda: specs.build(a_spec, hints), f"{rel}/build", f"constructing a valid {t} block")
            if not ok:
                return
            if rel == "same":
                b = a
            elif rel == "rebuilt":
                b = specs.build(a_spec, hints)
            elif rel == "subclass-roundtrip":
                # an application's own trivial subclass of the block class (one convenience method more) is still that block: it equals
                # what the library reads back from its encoding (always an instance of the library's own class)
                ok, res = ctx.must(lambda: specs.lib_decode(t, spec["format"], specs.lib_write(a)), f"{rel}/encode-decode", f"round trip of a valid {t} block")
                if not ok:
                    return
                b = res[0]
                a.__class__ = type("Mine" + type(a).__name__, (type(a),), {"convenience": lambda self: len(specs.lib_write(self))})
            else:
                ok, res = ctx.must(lambda: specs.lib_decode(t, spec["format"], specs.lib_write(a)), f"{rel}/encode-decode", f"round trip of a valid {t} block")
                if not ok:
                    return
                b = res[0]
            compare(ctx, t, rel, a, b, True, "a==b")
            if b is not a:
                compare(ctx, t, rel, b, a, True, "b==a")
            gap = has_gap(spec)
            ctx.case(case, gap or specs.n_items(spec) > 0, labels=[f"{t}:{rel}", "with-gap" if gap else "no-gap"])
            return
        pair = DIFF_RELS[rel](copy.deepcopy(spec), pick)
        if pair is None:
            ctx.case(case, False, labels=[f"{t}:{rel}:not-applicable"])
            return
        a_spec, b_spec = pair
        ok, a = ctx.must(lambda: specs.build(a_spec, hints), f"{rel}/build", f"constructing a valid {t} block")
        ok2, b = ctx.must(lambda: specs.build(b_spec, hints), f"{rel}/build", f"constructing a valid {t} block")
        if not (ok and ok2):
            return
        compare(ctx, t, rel, a, b, False, "a==b")
        compare(ctx, t, rel, b, a, False, "b==a")
        if pick % 2:
            # one operand decoded from bytes (numpy scalars, decoded containers), the other built by hand
            ok3, res = ctx.must(lambda: specs.lib_decode(t, b_spec["format"], specs.lib_write(b)), f"{rel}/encode-decode", f"round trip of a valid {t} block")
            if ok3:
                compare(ctx, t, rel, a, res[0], False, "a==decoded(b)")
                compare(ctx, t, rel, res[0], a, False, "decoded(b)==a")
        ctx.case(case, True, labels=[f"{t}:{rel}"])

    return run


def make_strategy(t, rel):
    need = 3 if rel == "drop-middle" else 2 if rel in ("swap-items", "make-duplicate") else 1 if rel in ("drop-last", "label", "label-confusable", "channel", "sample", "sample-checksum-neutral", "viewport", "camera-index", "gap", "event-type", "event-count") or rel.startswith(("camera:", "platform:")) else 0

    def strat(tier):
        base = specs.SPEC[t](tier, need)
        if rel in ("scalar:nFrames", "scalar:nSamples", "scalar:format"):
            base = base.map(_strip_items)
        if rel == "append-item":
            base = base.map(_clamp_frames)
        if rel == "link":
            base = base.map(lambda s: dict(s, format=1, links=s["links"] or []))
        if rel == "event-count":
            base = base.map(_force_sequence)
        if rel in ("camera:radial", "camera:decentering", "camera:prism"):
            base = specs.SPEC[t](tier, need).filter(lambda s: s["format"] == 1)
        if rel in ("camera:xd", "camera:yd"):
            base = specs.SPEC[t](tier, need).filter(lambda s: s["format"] == 2)
        return st.fixed_dictionaries({"spec": base, "hints": specs.HINTS, "pick": st.integers(0, 10 ** 6)})

    return strat


def _clamp_frames(s):
    """an item can only be appended to an empty block if its frame count is allocatable"""
    t = s["t"]
    if t in specs.RLE_TYPES and not codec.items(s) and s[nframes_key(t)] > 64:
        s = dict(s)
        s[nframes_key(t)] = s[nframes_key(t)] % 50 + 1
    return s


def _strip_items(s):
    s = dict(s)
    for k in codec.ITEM_KEYS:
        if k in s:
            s[k] = []
    if s["t"] == "calib":
        s["map"] = []
    return s


def _force_sequence(s):
    s = copy.deepcopy(s)
    if s["events"]:
        s["events"][0]["type"] = 1
    return s


# ---------------------------------------------------------------------------------------
# files
def files_strategy(tier):
    from .c06 import comments, dates31

    @st.composite
    def cases(draw):
        n = draw(st.sampled_from([1, 2, 3, 5, 14]))
        types = draw(st.lists(st.sampled_from(specs.TYPES), max_size=min(n, 3), unique=True))
        blocks = [{"spec": draw(specs.SPEC[t]("quick")), "comment": draw(comments), "cdate": draw(dates31), "mdate": draw(dates31)} for t in types]
        rel = draw(st.sampled_from(["copy", "metadata-only", "slot-count", "version", "block-changed", "block-removed", "block-added", "block-order", "block-order",
                                    "in-session-remove", "in-session-add", "in-session-replace", "stale-object-remove", "stale-object-add", "stale-object-replace"]))
        return {"N": n, "version": draw(st.sampled_from([1, 1, 2, 7])), "blocks": blocks, "rel": rel, "pick": draw(st.integers(0, 10 ** 6)),
                "comment2": draw(comments), "date2": draw(dates31)}

    return cases()


def _image(n, version, blocks):
    bl = [{"type": reftdf.TYPE_CODE[b["spec"]["t"]], "format": b["spec"]["format"], "payload": reftdf.encode(b["spec"]),
           "comment": b["comment"], "cdate": b["cdate"], "mdate": b["mdate"], "adate": 0} for b in blocks]
    return reftdf.build_image(n, bl, version=version)


def run_files(ctx, case):
    from basictdf import Tdf

    rel, pick = case["rel"], case["pick"]
    a_blocks = copy.deepcopy(case["blocks"])
    b_blocks = copy.deepcopy(case["blocks"])
    na = nb = case["N"]
    va = vb = case["version"]
    expect = True
    if rel == "metadata-only":
        for b in b_blocks:
            b["comment"], b["cdate"], b["mdate"] = case["comment2"], case["date2"], case["date2"]
    elif rel == "slot-count":
        nb = na + 1
        expect = False
    elif rel == "version":
        vb = va + 1
        expect = False
    elif rel == "block-changed":
        if not a_blocks:
            rel = "copy"
        else:
            k = pick % len(a_blocks)
            t = a_blocks[k]["spec"]["t"]
            cands = [r for r in ("append-item", "scalar:frequency", "scalar:startTime", "sample", "label", "label-confusable") if r in relations_for(t)]
            pair = None
            for r in cands[pick // 3 % len(cands):] + cands:
                pair = DIFF_RELS[r](_clamp_frames(copy.deepcopy(a_blocks[k]["spec"])), pick)
                if pair:
                    break
            a_blocks[k]["spec"], b_blocks[k]["spec"] = pair
            expect = False
    elif rel == "block-order":
        if len(a_blocks) < 2:
            rel = "copy"
        else:
            i = pick % (len(b_blocks) - 1)
            b_blocks[i], b_blocks[i + 1] = b_blocks[i + 1], b_blocks[i]
            expect = False
    elif rel == "block-removed":
        if not a_blocks:
            rel = "copy"
        else:
            del b_blocks[pick % len(b_blocks)]
            expect = False
    elif rel == "block-added":
        unused = [t for t in specs.TYPES if t not in {b["spec"]["t"] for b in a_blocks}]
        if len(a_blocks) >= na:
            rel = "copy"
        else:
            t = unused[pick % len(unused)]
            b_blocks.append({"spec": _minimal(t), "comment": "", "cdate": 0, "mdate": 0})
            expect = False
    if rel.startswith("stale-object-"):
        # a LONG-LIVED object for file a was used before (a context entered and left, the blocks read); then file a is edited through ANOTHER
        # object for the same path; then the long-lived object is compared: with an untouched copy of the old content (now different), with a
        # fresh object for its own file (equal), with a file that holds the new content (equal)
        from basictdf.tdfBlock import BlockType

        d = env.fresh_dir()
        try:
            pa, pold, pnew = os.path.join(d, "a.tdf"), os.path.join(d, "old.tdf"), os.path.join(d, "new.tdf")
            img = _image(na, va, a_blocks)
            open(pa, "wb").write(img)
            open(pold, "wb").write(img)
            present = [b["spec"]["t"] for b in a_blocks]
            absent = [t for t in specs.TYPES if t not in present]
            kind = rel.split("-")[-1]
            if (kind in ("remove", "replace") and not present) or (kind == "add" and len(present) >= na):
                ctx.case(case, False, labels=[f"files:{rel}:not-applicable"])
                return

            def history():
                long_lived = Tdf(pa)
                with long_lived as t_:
                    _ = t_.blocks if pick % 2 else len(t_)
                if pick % 3 == 0:
                    with long_lived as t_, Tdf(pold) as to_:
                        _ = t_ == to_
                with Tdf(pa).allow_write() as w:
                    if kind == "remove":
                        w.remove_block(BlockType(reftdf.TYPE_CODE[present[pick % len(present)]]))
                    elif kind == "add":
                        w.add_block(specs.build(_minimal(absent[pick % len(absent)])))
                    else:
                        t2 = present[pick % len(present)]
                        pair = None
                        for r in ("scalar:frequency", "scalar:startTime", "label", "append-item"):
                            if r in relations_for(t2):
                                pair = DIFF_RELS[r](_clamp_frames(copy.deepcopy(a_blocks[present.index(t2)]["spec"])), pick)
                                if pair:
                                    break
                        if not pair:
                            return None
                        w.replace_block(specs.build(pair[1]))
                import shutil

                shutil.copyfile(pa, pnew)
                out = {}
                for name, other_path, want in (("old-content", pold, False), ("own-file-fresh-object", pa, True), ("new-content", pnew, True)):
                    with long_lived as t_, Tdf(other_path) as o_:
                        out[name] = (bool(t_ == o_), bool(o_ == t_), want)
                return out
            ok, res = ctx.must(history, f"files/{rel}/history", f"comparing a long-lived object after its file was edited through another object ({rel})")
            if ok and res:
                for name, (r1, r2, want) in res.items():
                    if (r1, r2) != (want, want):
                        ctx.fail(f"files/{rel}/{name}/{'reported-equal' if not want else 'reported-different'}",
                                 f"a Tdf object that had been used before its file was edited ({kind}) through another object for the same path compares "
                                 f"{'EQUAL to' if not want else 'unequal to'} {name.replace('-', ' ')} (a==b: {r1}, b==a: {r2})")
        finally:
            env.rmdir(d)
        ctx.case(case, True, labels=[f"files:{rel}", f"blocks={len(a_blocks)}"])
        return
    if rel.startswith("in-session-"):
        # two identical files; one of them is edited INSIDE an open write context in which the two had already been compared once:
        # the comparison made right after the edit, in the same context, sees the edit
        from basictdf.tdfBlock import BlockType

        d = env.fresh_dir()
        try:
            pa, pb = os.path.join(d, "a.tdf"), os.path.join(d, "b.tdf")
            img = _image(na, va, a_blocks)
            open(pa, "wb").write(img)
            open(pb, "wb").write(img)
            present = [b["spec"]["t"] for b in a_blocks]
            absent = [t for t in specs.TYPES if t not in present]
            kind = rel.split("-")[-1]
            if (kind in ("remove", "replace") and not present) or (kind == "add" and len(present) >= na):
                ctx.case(case, False, labels=[f"files:{rel}:not-applicable"])
                return

            def session():
                with Tdf(pa).allow_write() as ta:
                    with Tdf(pb) as tb:
                        first = (bool(ta == tb), bool(tb == ta))
                        _ = ta.blocks
                        if kind == "remove":
                            ta.remove_block(BlockType(reftdf.TYPE_CODE[present[pick % len(present)]]))
                        elif kind == "add":
                            ta.add_block(specs.build(_minimal(absent[pick % len(absent)])))
                        else:
                            t_ = present[pick % len(present)]
                            pair = None
                            for r in ("append-item", "scalar:frequency", "scalar:startTime", "label"):
                                if r in relations_for(t_):
                                    pair = DIFF_RELS[r](_clamp_frames(copy.deepcopy(a_blocks[present.index(t_)]["spec"])), pick)
                                    if pair:
                                        break
                            if not pair:
                                return first, None
                            ta.replace_block(specs.build(pair[1]))
                        return first, (bool(ta == tb), bool(tb == ta))
            ok, res = ctx.must(session, f"files/{rel}/session", f"comparing two files inside an open write context ({rel})")
            if ok:
                first, second = res
                if first != (True, True):
                    ctx.fail(f"files/{rel}/identical-files-unequal", f"two byte-identical files compare unequal inside a context ({first})")
                if second is not None and second != (False, False):
                    ctx.fail(f"files/{rel}/reported-equal", f"two files compared inside one open write context: after {kind} on one of them they still compare EQUAL "
                                                            f"(a==b: {second[0]}, b==a: {second[1]})")
        finally:
            env.rmdir(d)
        ctx.case(case, True, labels=[f"files:{rel}", f"blocks={len(a_blocks)}"])
        return
    d = env.fresh_dir()
    try:
        pa, pb = os.path.join(d, "a.tdf"), os.path.join(d, "b.tdf")
        open(pa, "wb").write(_image(na, va, a_blocks))
        open(pb, "wb").write(_image(nb, vb, b_blocks))
        if pick % 3 != 2:
            # same time stamps on both files (what cp -p, rsync -t or unpacking an archive leave behind): content decides, not the stat record
            st_a = os.stat(pa)
            os.utime(pb, ns=(st_a.st_atime_ns, st_a.st_mtime_ns))
            ctx.label("same-mtime" + ("+same-size" if os.path.getsize(pa) == os.path.getsize(pb) else ""))
        for order, (x, y) in (("a==b", (pa, pb)), ("b==a", (pb, pa))):
            def cmp():
                with Tdf(x) as tx:
                    with Tdf(y) as ty:
                        return bool(tx == ty)
            ok, r = ctx.must(cmp, f"files/{rel}/compare", f"comparing two well-formed files ({rel})")
            if ok and r != expect:
                ctx.fail(f"files/{rel}/{'reported-different' if expect else 'reported-equal'}",
                         f"files related by '{rel}' compare {'unequal' if expect else 'EQUAL'} ({order})")
    finally:
        env.rmdir(d)
    ctx.case(case, rel != "copy" or any(has_gap(b["spec"]) for b in a_blocks), labels=[f"files:{rel}", f"blocks={len(a_blocks)}"])


def _minimal(t):
    base = {"data3D": {"t": "data3D", "format": 2, "nFrames": 1, "frequency": 1, "startTime": 0, "volume": [0] * 3, "rot": [0] * 9, "trans": [0] * 3, "flag": 0, "links": None, "tracks": []},
            "emg": {"t": "emg", "format": 1, "frequency": 1, "startTime": 0, "nSamples": 1, "signals": []},
            "force3D": {"t": "force3D", "format": 1, "frequency": 1, "startTime": 0, "nFrames": 1, "volume": [0] * 3, "rot": [0] * 9, "trans": [0] * 3, "tracks": []},
            "platData": {"t": "platData", "format": 1, "frequency": 1, "startTime": 0, "nFrames": 1, "plats": []},
            "platCal": {"t": "platCal", "format": 2, "plats": []},
            "data2D": {"t": "data2D", "format": 2, "nCams": 0, "nFrames": 1, "frequency": 1, "startTime": 0, "flags": 0, "camMap": [], "cells": [[]]},
            "calib": {"t": "calib", "format": 1, "model": 0, "volume": [0] * 3, "rot": [0] * 9, "trans": [0] * 3, "map": [], "cams": []},
            "optical": {"t": "optical", "format": 1, "channels": []},
            "events": {"t": "events", "format": 1, "startTime": 0, "events": []}}
    return base[t]


SUBS = []
for _t in specs.TYPES:
    for _rel in relations_for(_t):
        SUBS.append(Sub(f"{_t}:{_rel}", make_run(_t, _rel), strategy=make_strategy(_t, _rel), budget=(40, 1600), shards=(1, 2),
                        rule=f"{_t} pairs related by '{_rel}': expected {'equal' if _rel in EQUAL_RELS else 'different'}",
                        nontrivial_required=_rel != "same"))
SUBS.append(Sub("files", run_files, strategy=files_strategy, budget=(150, 4000), shards=(2, 16),
                rule="pairs of file images (copy / metadata-only difference / slot count / version / one block changed, removed, added): Tdf == Tdf vs expectation"))
def enum_file_relations(tier):
    """every file-level relation on fixed files (three labelled blocks), several picks each: what the sampled sub-check reaches on average is
    reached for certain"""
    from .c07 import labelled_spec

    blocks = [{"spec": labelled_spec(t, 2), "comment": t, "cdate": 5, "mdate": 6} for t in ("events", "emg", "data3D")]
    for rel in ("copy", "metadata-only", "slot-count", "version", "block-changed", "block-removed", "block-added", "block-order", "in-session-remove", "in-session-add",
                "in-session-replace", "stale-object-remove", "stale-object-add", "stale-object-replace"):
        for n in (3, 5, 14):
            for pick in range(6):
                yield {"N": n, "version": 1, "blocks": blocks, "rel": rel, "pick": pick, "comment2": "other comment", "date2": 77}


SUBS.append(Sub("files-each-relation", run_files, kind="enum", enumerate=enum_file_relations, shards=(4, 8),
                rule="fixed files (events + EMG + 3D data) x each of the 14 file relations (among them: a long-lived object compared after its file was edited through another "
                     "object) x table lengths {3,5,14} x 6 picks; finite, enumerated", nontrivial_required=False))


# ---------------------------------------------------------------------------------------
# operands whose sample arrays live in ONE buffer (windows of one recording), and recordings longer than any internal chunk
FIELDS = {"emg": [("data", 0)], "data3D": [("data", 3)], "force3D": [("application_point", 3), ("force", 3), ("torque", 3)],
          "platData": [("application_point", 2), ("force", 3), ("torque", 0)]}


def _ramp(n, width, start=1.0, step=10.0):
    """clearly different values (far beyond any tolerance): row i holds start + step*i (+ column)"""
    a = (start + step * np.arange(n, dtype="<f4"))
    return a.copy() if width == 0 else (a[:, None] + np.arange(width, dtype="<f4")[None, :]).astype("<f4")


def _rle_objects(t, n, item_fields):
    """a block of type t with len(item_fields) items; item_fields[i] = {field name: array}"""
    if t == "emg":
        from basictdf.tdfEMG import EMG, EMGTrack

        b = EMG(1000, n, 0.0)
        for i, f in enumerate(item_fields):
            b.addSignal(EMGTrack(f"s{i}", f["data"]), channel=i)
    elif t == "data3D":
        from basictdf.tdfData3D import Data3D, MarkerTrack

        b = Data3D(100, n, np.zeros(3, "<f4"), np.eye(3, dtype="<f4"), np.zeros(3, "<f4"))
        for i, f in enumerate(item_fields):
            b.add_track(MarkerTrack(f"m{i}", f["data"]))
    elif t == "force3D":
        from basictdf.tdfForce3D import ForceTorque3D, ForceTorqueTrack

        b = ForceTorque3D(100, n, np.zeros(3, "<f4"), np.eye(3, dtype="<f4"), np.zeros(3, "<f4"))
        for i, f in enumerate(item_fields):
            b.add_track(ForceTorqueTrack(f"f{i}", f["application_point"], f["force"], f["torque"]))
    else:
        from basictdf.tdfForcePlatformsData import ForcePlatformData, ForcePlatformsDataBlock

        b = ForcePlatformsDataBlock(0.0, 100, n)
        for i, f in enumerate(item_fields):
            b.add_platform(ForcePlatformData(f["application_point"], f["force"], f["torque"]), channel=i)
    return b


def _plain_fields(t, n, i):
    return {name: _ramp(n, w, start=100.0 * (i + 1) + k) for k, (name, w) in enumerate(FIELDS[t])}


def _verdicts(ctx, t, tag, a, b, expect, what):
    compare(ctx, t, tag, a, b, expect, "a==b")
    compare(ctx, t, tag, b, a, expect, "b==a")
    try:
        ne = bool(a != b)
    except Exception:  # noqa - judged by compare() above
        return
    if ne != (not expect):
        ctx.fail(f"{tag}/not-equal-operator-disagrees", f"{t}: a != b is {ne} for blocks that are {'equal' if expect else 'different'} ({what})")


SHARED_VARIANTS = {"shifted-window": False, "reversed": False, "strided": False, "same-view": True, "shifted-window-of-constant": True, "shifted-window-of-gap": True,
                   "copy-of-other-window": False}


def enum_shared(tier):
    for t in FIELDS:
        for variant in SHARED_VARIANTS:
            for n in (2, 5, 64):
                for item in (0, 1):
                    for fi in range(len(FIELDS[t])):
                        yield {"t": t, "variant": variant, "n": n, "item": item, "field": fi}


def run_shared(ctx, case):
    t, variant, n, item, fi = case["t"], case["variant"], case["n"], case["item"], case["field"]
    name, w = FIELDS[t][fi]
    shape1 = (2 * n + 2,) if w == 0 else (2 * n + 2, w)
    if variant == "shifted-window-of-constant":
        rec = np.full(shape1, 7.5, dtype="<f4")
    elif variant == "shifted-window-of-gap":
        rec = np.full(shape1, np.nan, dtype="<f4")
    else:
        rec = _ramp(2 * n + 2, w)
    xa = rec[0:n]
    xb = {"shifted-window": rec[1:n + 1], "reversed": xa[::-1], "strided": rec[0:2 * n:2], "same-view": xa, "shifted-window-of-constant": rec[1:n + 1],
          "shifted-window-of-gap": rec[1:n + 1], "copy-of-other-window": rec[1:n + 1].copy()}[variant]
    expect = SHARED_VARIANTS[variant]
    fa = [_plain_fields(t, n, i) for i in range(2)]
    fb = [_plain_fields(t, n, i) for i in range(2)]
    if variant == "shifted-window-of-gap":
        # a gap is a frame missing in ALL fields of the item
        for k, (nm, ww) in enumerate(FIELDS[t]):
            g = np.full((2 * n + 2,) if ww == 0 else (2 * n + 2, ww), np.nan, dtype="<f4")
            fa[item][nm], fb[item][nm] = g[0:n], g[1:n + 1]
    fa[item][name], fb[item][name] = xa, xb
    ok, a = ctx.must(lambda: _rle_objects(t, n, fa), "shared/build", f"constructing a valid {t} block from windows of one recording")
    ok2, b = ctx.must(lambda: _rle_objects(t, n, fb), "shared/build", f"constructing a valid {t} block from windows of one recording")
    if not (ok and ok2):
        return
    what = f"{name} of item {item}: a holds rec[0:{n}], b a {variant} view of the same buffer; shares memory: {bool(np.shares_memory(xa, xb))}"
    _verdicts(ctx, t, f"views/{variant}", a, b, expect, what)
    ctx.case(case, True, labels=[f"{t}:{variant}", f"n={n}", "expect-" + ("equal" if expect else "different")])


def enum_long(tier):
    lengths = (65537, 70000) if tier == "quick" else (65536, 65537, 70000, 131072 + 7, 200001)
    for t in FIELDS:
        for n in lengths:
            for where in ("first", "65535", "65536", "last", "none"):
                for kind in ("value", "gap"):
                    if where == "none" and kind == "gap":
                        continue
                    for fi in range(len(FIELDS[t])):
                        if where != "last" and fi:
                            continue
                        yield {"t": t, "n": n, "where": where, "kind": kind, "field": fi}


def run_long(ctx, case):
    t, n, where, kind, fi = case["t"], case["n"], case["where"], case["kind"], case["field"]
    name, w = FIELDS[t][fi]
    fa = [_plain_fields(t, n, 0)]
    fb = [_plain_fields(t, n, 0)]
    if where != "none":
        k = {"first": 0, "65535": 65535, "65536": 65536, "last": n - 1}[where]
        if kind == "value":
            fb[0][name][k] = fb[0][name][k] + 1000.0 + 0.5 * abs(fb[0][name][k])
        else:
            for nm, _ in FIELDS[t]:
                fb[0][nm][k] = np.nan
    ok, a = ctx.must(lambda: _rle_objects(t, n, fa), "long/build", f"constructing a valid {t} block of {n} frames")
    ok2, b = ctx.must(lambda: _rle_objects(t, n, fb), "long/build", f"constructing a valid {t} block of {n} frames")
    if not (ok and ok2):
        return
    _verdicts(ctx, t, f"long/{kind if where != 'none' else 'equal'}-at-{where}", a, b, where == "none",
              f"{n} frames, " + (f"{name} differs ({kind}) at frame {where}" if where != "none" else "built twice from the same values"))
    ctx.case(case, True, labels=[f"{t}:n={n}", f"diff-at-{where}", kind])


SUBS.append(Sub("operands-sharing-memory", run_shared, kind="enum", enumerate=enum_shared, shards=(4, 8),
                rule="EMG / 3D data / 3D force / platform data pairs whose differing sample array is ANOTHER VIEW of the buffer the first operand's array lives in (windows "
                     "rec[0:n] / rec[1:n+1] of one recording, reversed, strided; the same view; windows of a constant or all-gap recording, which hold equal content) x n in "
                     "{2,5,64} x item x field: == in both orders and != follow the content, not the memory; finite, enumerated", nontrivial_required=False))
SUBS.append(Sub("long-recordings", run_long, kind="enum", enumerate=enum_long, shards=(8, 16),
                rule="the four sample-carrying types with 65537 / 70000 frames (thorough: 65536 .. 200001): one sample changed far beyond tolerance, or one frame turned into a "
                     "gap, at the first frame, at 65535, 65536 and at the LAST frame (each field), and the pair built twice from the same values; finite, enumerated",
                nontrivial_required=False))
TIME_BUDGET = {"quick": 150, "thorough": 1500}
