"""C18 - lookup by index, by label, membership, iteration and length are coherent."""
from hypothesis import strategies as st

from .. import specs
from ..core import Sub

PROP = {
    "id": "C18",
    "level": "exploration",
    "technique": "Hypothesis-generated blocks (3D, force/torque, EMG, events) with labels from a tiny alphabet (duplicates, empty, case and blank variants) x systematic key sets; oracle: the five access paths are compared with the plain list of iterated items; the block object's whole attribute state is compared around the read-only phase, which runs with ASCII-only / closed / absent standard streams in rotation",
    "level_text": ("Exploration: for each generated block every integer in [-n-2, n+1], every label of a small closed alphabet (present, absent, "
                   "near-miss), every item and a set of foreign key types is tried; results are compared with the list obtained by "
                   "iteration, and the block's encoding must be unchanged afterwards."),
    "level_note": "Negative integers are only required to behave like Python sequence indices or raise; numpy integers and bools as keys are not asserted either way (the statement does not classify them). For 'in' with a foreign type, TypeError or False are both accepted.",
    "design_ref": "DESIGN.md section 3, C18",
    "rule": "case = {spec with small-alphabet labels}; non-trivial = the block holds a duplicate label; distinct by sha1 of the case",
    "assumptions": [],
}

import numpy as np

ALPHABET = ["", "a", "A", "a ", " a", "b", "ab", "B", "é", "É", "3", "0", "a\tb", "L" * 200]
TYPES = ["data3D", "force3D", "emg", "events"]


def strategy_for(t):
    def strat(tier):
        top = 8 if tier == "quick" else 12

        @st.composite
        def cases(draw):
            spec = draw(specs.SPEC[t]("quick"))
            k = draw(st.integers(0, top))
            sub = draw(st.lists(st.sampled_from(ALPHABET), min_size=1, max_size=4))
            if draw(st.integers(0, 5)) == 0:
                k = draw(st.integers(13, 40))      # more items than any small fixed-size cache
            labs = draw(st.lists(st.sampled_from(sub), min_size=k, max_size=k))
            spec = dict(spec)
            if t == "events":
                # (events may carry no value at all - the constructor's default - one value, or a sequence)
                shape = draw(st.sampled_from(["one", "one", "none", "mixed"]))
                spec["events"] = [{"label": l, "type": 0 if (shape != "mixed" or i % 3) else 1,
                                   "values": [] if shape == "none" or (shape == "mixed" and i % 2 == 0) else [0x3F800000 + i] if (shape != "mixed" or i % 3) else [0x3F800000 + i, 0x40000000]}
                                  for i, l in enumerate(labs)]
            else:
                key = {"data3D": "tracks", "force3D": "tracks", "emg": "signals"}[t]
                nk = "nSamples" if t == "emg" else "nFrames"
                n = draw(st.integers(1, 3))
                pf = specs.PER_FRAME[t]
                spec[nk] = n
                items = []
                for i, l in enumerate(labs):
                    fr = draw(specs.rle_frames(n, pf))
                    it = {"label": l, "frames": fr}
                    if t == "emg":
                        it["channel"] = (i * 7 + 3) % 11 if k <= 11 else i  # distinct, not ascending
                    items.append(it)
                spec[key] = items
                spec["_chmode"] = "explicit"
            return {"spec": spec, "origin": draw(st.sampled_from(["built", "built", "decoded"]))}

        return cases()

    return strat


def state_of(b):
    """everything the block object holds, dates included (one and the same object is looked at twice: nothing in it has a reason to differ)"""
    from .c20 import deep_snapshot

    def dates(o):
        return sorted((k, repr(v)) for k, v in vars(o).items() if k.endswith("_date")) if hasattr(o, "__dict__") else []

    return {"content": deep_snapshot(b), "dates": dates(b), "item-dates": [dates(x) for x in iter(b)]}


class hostile_stdout:
    """the process's standard streams are not a UTF-8 terminal: 'ascii' - they encode to ASCII only (PYTHONIOENCODING=ascii, the C locale);
    'closed' - they are closed (a daemon, a GUI program, pythonw). A lookup has no business writing to them; if it does it fails here."""

    def __init__(self, kind):
        self.kind = kind

    def __enter__(self):
        import io
        import sys

        self.saved = (sys.stdout, sys.stderr)
        if self.kind == "ascii":
            sys.stdout = io.TextIOWrapper(io.BytesIO(), encoding="ascii", errors="strict")
            sys.stderr = io.TextIOWrapper(io.BytesIO(), encoding="ascii", errors="strict")
        elif self.kind == "closed":
            a, b_ = io.StringIO(), io.StringIO()
            a.close()
            b_.close()
            sys.stdout, sys.stderr = a, b_
        elif self.kind == "none":
            sys.stdout = sys.stderr = None      # what pythonw / a windowed application has

    def __exit__(self, *exc):
        import sys

        sys.stdout, sys.stderr = self.saved


def make_run(t):
    def run(ctx, case):
        streams = ["ascii", "closed", "none", "normal"][(len(case["spec"].get("tracks") or case["spec"].get("signals") or case["spec"].get("events") or []) +
                                                         (1 if case.get("origin") == "decoded" else 0)) % 4]
        with hostile_stdout(streams):
            run_(ctx, case, streams)

    def run_(ctx, case, streams):
        spec = case["spec"]
        ok, b = ctx.must(lambda: specs.build(spec), "build", f"constructing a valid {t} block")
        if not ok:
            return
        if case.get("origin") == "decoded":
            # the same questions asked of a block that came out of the decoder (labels and containers as the decoder makes them)
            ok, b = ctx.must(lambda: specs.lib_decode(t, spec["format"], specs.lib_write(b))[0], "decode", f"decoding a valid {t} block")
            if not ok:
                return
        if t in ("data3D", "force3D", "emg") and (len(case["spec"].get("tracks") or case["spec"].get("signals") or []) + (1 if case.get("origin") == "decoded" else 0)) % 2:
            # the block's history contains an edit that was REFUSED (an item of another length, the documented ValueError): it left nothing
            from .c16 import make_track as _mk

            nfr_ = spec.get("nSamples", spec.get("nFrames", 1))
            try:
                (b.addSignal if t == "emg" else b.add_track)(_mk(t, nfr_ + 3, "refused", 3))
            except Exception:  # noqa - C16's subject
                pass
            ctx.label("history-with-a-refused-edit")
        before = specs.lib_write(b)
        state_before = state_of(b)
        items = list(iter(b))
        n = len(items)
        labels = [it.label for it in items]
        want_labels = [x["label"] for x in (spec.get("tracks") or spec.get("signals") or spec.get("events") or [])]
        if labels != want_labels:
            ctx.fail("iteration-order", f"{t}: iteration yields labels {labels}, the block was filled with {want_labels}")
        if len(b) != n:
            ctx.fail("len-vs-iter", f"{t}: len() is {len(b)}, iteration yields {n} items")
        # positions
        for i in range(-n - 2, n + 2):
            try:
                got = b[i]
                exc = None
            except Exception as e:  # noqa
                got, exc = None, e
            if 0 <= i < n:
                if exc is not None:
                    ctx.fail("index-valid-raises", f"{t}: b[{i}] raised {type(exc).__name__} with {n} items")
                elif got is not items[i]:
                    ctx.fail("index-wrong-item", f"{t}: b[{i}] is not the {i}-th iterated item")
            elif i >= n:
                if exc is None:
                    ctx.fail("index-out-of-range-returns", f"{t}: b[{i}] returned something with only {n} items")
            else:  # negative: Python sequence semantics or an exception
                if exc is None and not (-n <= i and got is items[i]):
                    ctx.fail("index-negative-wrong-item", f"{t}: b[{i}] returned an item that is not items[{i}]")
        # labels
        import unicodedata

        # (also: other spellings of a label - decomposed accents, compatibility forms - which are OTHER strings; and absent keys made of
        #  characters that mean something to string formatting)
        respelled = [unicodedata.normalize(form, x) for x in ALPHABET for form in ("NFD", "NFKD", "NFKC") if unicodedata.normalize(form, x) != x]
        for lab in ALPHABET + ["zz", "a  ", "Ab"] + [x + "\x00" for x in ALPHABET[:6]] + ["\x00", "a\x00\x00", "3", "0", "-1", "a\tb"] + respelled + \
                ["%", "50%", "%s", "%d", "a%b", "%(x)s", "{}", "{0}", "{label}", "\\", "\\x", "$a", "*", "a*", "[a]", "^a$", "a|b"]:
            first = next((it for it in items if it.label == lab), None)
            try:
                got = b[lab]
                exc = None
            except KeyError as e:
                got, exc = None, e
            except Exception as e:  # noqa
                ctx.fail("label-lookup-wrong-exception", f"{t}: b[{lab!r}] raised {type(e).__name__} instead of KeyError / returning")
                continue
            if first is None and exc is None:
                ctx.fail("label-absent-returns", f"{t}: b[{lab!r}] returned an item labelled {got.label!r}; no item has that label")
            elif first is not None and exc is not None:
                ctx.fail("label-present-raises", f"{t}: b[{lab!r}] raised KeyError although an item has that label")
            elif first is not None and got is not first:
                ctx.fail("label-not-first-match", f"{t}: b[{lab!r}] did not return the first item carrying that label (labels: {labels})")
            try:
                inside = lab in b
            except Exception as e:  # noqa
                ctx.fail("membership-raises", f"{t}: {lab!r} in b raised {type(e).__name__}")
                continue
            if bool(inside) != (first is not None):
                ctx.fail("membership-vs-lookup", f"{t}: ({lab!r} in b) is {inside} but lookup by that label {'succeeds' if first is not None else 'fails'} (labels: {labels})")
        # a label is a label in whatever str type it arrives: numpy.str_ (a label taken from an array of names), a str-valued Enum member,
        # an application's own str subclass
        import enum

        class Name(str):
            pass

        for lab in sorted(set(labels[:3] + ["zz", "a"])):
            first = next((it for it in items if it.label == lab), None)
            forms = [("numpy.str_", np.str_(lab)), ("str-subclass", Name(lab))]
            if lab.isidentifier():
                forms.append(("str-Enum", enum.Enum("Lab", {lab: lab}, type=str)[lab]))
            for fname, key in forms:
                try:
                    got, exc = b[key], None
                except KeyError as e:
                    got, exc = None, e
                except Exception as e:  # noqa
                    got, exc = None, e
                if exc is not None and not isinstance(exc, KeyError):
                    ctx.fail(f"label-as-{fname}/wrong-exception", f"{t}: b[{fname}({lab!r})] raised {type(exc).__name__} (a plain str with the same text {'finds the item' if first is not None else 'gives KeyError'})")
                elif first is None and exc is None:
                    ctx.fail(f"label-as-{fname}/absent-returns", f"{t}: b[{fname}({lab!r})] returned an item; no item has that label")
                elif first is not None and got is not first:
                    ctx.fail(f"label-as-{fname}/not-first-match", f"{t}: b[{fname}({lab!r})] did not return the first item carrying that label")
                try:
                    inside = key in b
                except Exception as e:  # noqa
                    inside = e
                if isinstance(inside, Exception) or bool(inside) != (first is not None):
                    ctx.fail(f"label-as-{fname}/membership-vs-lookup", f"{t}: ({fname}({lab!r}) in b) gives {inside!r} but lookup by that label {'succeeds' if first is not None else 'fails'}")
        for i, it in enumerate(items):
            try:
                inside = it in b
            except Exception as e:  # noqa
                ctx.fail("membership-item-raises", f"{t}: (item {i} in b) raised {type(e).__name__}: {e}")
                continue
            if not inside:
                ctx.fail("membership-item-false", f"{t}: iterated item {i} is reported as not contained")
        # several iterations over the same block alive at once: each yields every item, in order
        if n >= 2:
            outer = []
            for x in b:
                inner = [y for y in b]
                if [id(y) for y in inner] != [id(y) for y in items]:
                    ctx.fail("nested-iteration/inner", f"{t}: an iteration started inside another one over the same block yielded {len(inner)} of {n} items")
                outer.append(x)
            if [id(x) for x in outer] != [id(x) for x in items]:
                ctx.fail("nested-iteration/outer", f"{t}: an iteration during which the same block was iterated again yielded {len(outer)} of {n} items")
            pairs = list(zip(b, b))
            if [(id(x), id(y)) for x, y in pairs] != [(id(x), id(x)) for x in items]:
                ctx.fail("zip-block-with-itself", f"{t}: zip(block, block) yielded {len(pairs)} pairs for {n} items, or pairs of different items")
            it1 = iter(b)
            first = next(it1)
            full = list(b)
            rest = list(it1)
            if first is not items[0] or [id(x) for x in full] != [id(x) for x in items] or [id(x) for x in rest] != [id(x) for x in items[1:]]:
                ctx.fail("interleaved-iterators", f"{t}: an iterator advanced by one, a full pass, then the rest of the first iterator: got {1 + len(rest)} and {len(full)} items for {n}")
        # lookups issued while an iteration is in progress must neither disturb it nor be disturbed by it
        seen = []
        for i, it in enumerate(b):
            seen.append(it)
            want = next(x for x in items if x.label == it.label)
            try:
                if b[it.label] is not want or b[i] is not it or it.label not in b:
                    ctx.fail("lookup-during-iteration", f"{t}: lookups made while iterating (position {i}, label {it.label!r}) disagree with the iterated items")
            except Exception as e:  # noqa
                ctx.fail("lookup-during-iteration-raises", f"{t}: a lookup made while iterating raised {type(e).__name__}: {e}")
        if [id(x) for x in seen] != [id(x) for x in items]:
            ctx.fail("iteration-disturbed-by-lookups", f"{t}: an iteration during which lookups were made yielded {len(seen)} items instead of {n}")
        # foreign key types
        import decimal
        import fractions

        for key in (None, 1.5, b"a", ("a",), slice(0, 1), [0], {"a": 1}, 0.0, 1.0, 2.0, -1.0, float(n), np.float64(1.0), np.float32(0.0),
                    fractions.Fraction(1), decimal.Decimal(2), complex(1, 0), b"", bytearray(b"a")):
            try:
                b[key]
                ctx.fail("foreign-key-accepted", f"{t}: b[{key!r}] did not raise")
            except TypeError:
                pass
            except Exception as e:  # noqa
                ctx.fail("foreign-key-wrong-exception", f"{t}: b[{key!r}] raised {type(e).__name__}, expected TypeError")
            try:
                r = key in b
                if r:
                    ctx.fail("foreign-key-contained", f"{t}: ({key!r} in b) is true")
            except TypeError:
                pass
            except Exception as e:  # noqa
                ctx.fail("foreign-membership-wrong-exception", f"{t}: ({key!r} in b) raised {type(e).__name__}")
        after = specs.lib_write(b)
        if after != before or [id(x) for x in iter(b)] != [id(x) for x in items]:
            ctx.fail("block-changed", f"{t}: the block's encoding or item list changed during read-only access")
        dd = specs.first_diff(state_of(b), state_before)
        if dd:
            ctx.fail(f"block-attribute-changed-{dd[0].strip('/').split('/')[-1]}", f"{t}: after lookups, membership tests and iteration only, {dd[0]} of the block object is "
                                                                                   f"{str(dd[1])[:60]!r}; before them it was {str(dd[2])[:60]!r}")
        # second phase: the accessors must keep describing the block after it is edited (no stale view)
        from .c16 import make_track

        kind = {"data3D": "data3D", "force3D": "force3D", "emg": "emg"}.get(t)
        nfr = spec.get("nSamples", spec.get("nFrames", 1))
        if kind:
            new_item = make_track(kind, nfr, "zz", 7)
            (b.addSignal if t == "emg" else b.add_track)(new_item)
        else:
            from basictdf.tdfEvents import Event

            new_item = Event("zz", [1.0])
            b.events.append(new_item)
        now = list(iter(b))
        if len(b) != n + 1 or len(now) != n + 1 or now[-1] is not new_item:
            ctx.fail("after-add/len-or-iter-stale", f"{t}: after adding an item len() is {len(b)} and iteration yields {len(now)} items (expected {n + 1})")
        try:
            got = b["zz"]
        except Exception as e:  # noqa
            got = e
        if got is not new_item:
            ctx.fail("after-add/label-lookup-stale", f"{t}: after adding an item labelled 'zz', b['zz'] gives {type(got).__name__}")
        try:
            if not ("zz" in b):
                ctx.fail("after-add/membership-stale", f"{t}: after adding an item labelled 'zz', ('zz' in b) is false")
            if b[n] is not new_item:
                ctx.fail("after-add/index-stale", f"{t}: after adding an item, b[{n}] is not the new item")
        except Exception as e:  # noqa
            ctx.fail("after-add/raises", f"{t}: accessor raised {type(e).__name__} after an item was added")
        if n >= 2:
            # a label changed in place: lookups must follow the item's CURRENT label
            target = items[-1]
            old_label = target.label
            target.label = "renamed"
            try:
                got = b["renamed"]
            except Exception as e:  # noqa
                got = e
            if got is not target:
                ctx.fail("after-rename/label-lookup-stale", f"{t}: after an item's label was changed to 'renamed', b['renamed'] gives {type(got).__name__}")
            still = next((it for it in list(iter(b)) if it.label == old_label), None)
            try:
                got_old = b[old_label]
            except KeyError:
                got_old = None
            except Exception as e:  # noqa
                got_old = e
            if got_old is not still:
                ctx.fail("after-rename/old-label-stale", f"{t}: after an item's label was changed, lookup of its old label {old_label!r} is stale")
            if bool("renamed" in b) is not True:
                ctx.fail("after-rename/membership-stale", f"{t}: after an item's label was changed to 'renamed', ('renamed' in b) is false")
            target.label = old_label
        if n:
            # remove the first item through the public list / API and look its label up again
            first = items[0]
            if t == "emg":
                b.removeSignal(first.label)
            elif t == "events":
                del b.events[0]
            else:
                del b.tracks[0]
            rest = items[1:] + [new_item]
            want_first = next((it for it in rest if it.label == first.label), None)
            try:
                got = b[first.label]
            except KeyError:
                got = None
            except Exception as e:  # noqa
                got = e
            if got is not want_first:
                ctx.fail("after-remove/label-lookup-stale", f"{t}: after removing the first item, lookup of its label {first.label!r} gives "
                                                            f"{'the removed item' if got is first else type(got).__name__}")
            if len(b) != n or [id(x) for x in iter(b)] != [id(x) for x in rest]:
                ctx.fail("after-remove/len-or-iter-stale", f"{t}: after removing the first item len() is {len(b)}, iteration yields {len(list(iter(b)))} items")
            if bool(first.label in b) != (want_first is not None):
                ctx.fail("after-remove/membership-stale", f"{t}: after removing the first item, membership of its label is stale")
        dup = len(set(labels)) < len(labels)
        ctx.case(case, dup, labels=[t, f"items={min(n, 3)}{'+' if n >= 3 else ''}", "duplicate-label" if dup else "unique-labels",
                                    "empty-label" if "" in labels else "no-empty-label", "origin:" + case.get("origin", "built"), "std-streams:" + streams])

    return run


SUBS = [Sub(t, make_run(t), strategy=strategy_for(t), budget=(400, 10000), shards=(1, 4),
            rule=f"{t} blocks with 0..8 (12) items, labels from {ALPHABET}") for t in TYPES]
from ..core import optimised_child_sub  # noqa: E402
SUBS.append(optimised_child_sub("C18", ["events", "data3D"]))
