"""C18 - lookup by index, by label, membership, iteration and length are coherent."""
from hypothesis import strategies as st

from .. import specs
from ..core import Sub

PROP = {
    "id": "C18",
    "level": "exploration",
    "technique": "Hypothesis-generated blocks (3D, force/torque, EMG, events) with labels from a tiny alphabet (duplicates, empty, case and blank variants) x systematic key sets; oracle: the five access paths are compared with the plain list of iterated items",
    "level_text": ("Exploration: for each generated block every integer in [-n-2, n+1], every label of a small closed alphabet (present, absent, "
                   "near-miss), every item and a set of foreign key types is tried; results are compared with the list obtained by "
                   "iteration, and the block's encoding must be unchanged afterwards."),
    "level_note": "Negative integers are only required to behave like Python sequence indices or raise; numpy integers and bools as keys are not asserted either way (the statement does not classify them). For 'in' with a foreign type, TypeError or False are both accepted.",
    "design_ref": "DESIGN.md section 3, C18",
    "rule": "case = {spec with small-alphabet labels}; non-trivial = the block holds a duplicate label; distinct by sha1 of the case",
    "assumptions": [],
}

ALPHABET = ["", "a", "A", "a ", " a", "b", "ab", "B", "é", "É"]
TYPES = ["data3D", "force3D", "emg", "events"]


def strategy_for(t):
    def strat(tier):
        top = 8 if tier == "quick" else 12

        @st.composite
        def cases(draw):
            spec = draw(specs.SPEC[t]("quick"))
            k = draw(st.integers(0, top))
            sub = draw(st.lists(st.sampled_from(ALPHABET), min_size=1, max_size=4))
            labs = draw(st.lists(st.sampled_from(sub), min_size=k, max_size=k))
            spec = dict(spec)
            if t == "events":
                spec["events"] = [{"label": l, "type": 0, "values": [0x3F800000 + i]} for i, l in enumerate(labs)]
            else:
                key = {"data3D": "tracks", "force3D": "tracks", "emg": "signals"}[t]
                nk = "nSamples" if t == "emg" else "nFrames"
                n = draw(st.integers(1, 3))
                pf = specs.PER_FRAME[t]
                spec[nk] = n
                items = []
                for i, l in enumerate(labs):
                    fr = draw(specs.rle_frames(n, pf))
                    it = {"label": l, "frames": fr}
                    if t == "emg":
                        it["channel"] = i
                    items.append(it)
                spec[key] = items
                spec["_chmode"] = "explicit"
            return {"spec": spec}

        return cases()

    return strat


def make_run(t):
    def run(ctx, case):
        spec = case["spec"]
        ok, b = ctx.must(lambda: specs.build(spec), "build", f"constructing a valid {t} block")
        if not ok:
            return
        before = specs.lib_write(b)
        items = list(iter(b))
        n = len(items)
        labels = [it.label for it in items]
        want_labels = [x["label"] for x in (spec.get("tracks") or spec.get("signals") or spec.get("events") or [])]
        if labels != want_labels:
            ctx.fail("iteration-order", f"{t}: iteration yields labels {labels}, the block was filled with {want_labels}")
        if len(b) != n:
            ctx.fail("len-vs-iter", f"{t}: len() is {len(b)}, iteration yields {n} items")
        # positions
        for i in range(-n - 2, n + 2):
            try:
                got = b[i]
                exc = None
            except Exception as e:  # noqa
                got, exc = None, e
            if 0 <= i < n:
                if exc is not None:
                    ctx.fail("index-valid-raises", f"{t}: b[{i}] raised {type(exc).__name__} with {n} items")
                elif got is not items[i]:
                    ctx.fail("index-wrong-item", f"{t}: b[{i}] is not the {i}-th iterated item")
            elif i >= n:
                if exc is None:
                    ctx.fail("index-out-of-range-returns", f"{t}: b[{i}] returned something with only {n} items")
            else:  # negative: Python sequence semantics or an exception
                if exc is None and not (-n <= i and got is items[i]):
                    ctx.fail("index-negative-wrong-item", f"{t}: b[{i}] returned an item that is not items[{i}]")
        # labels
        for lab in ALPHABET + ["zz", "a  ", "Ab"]:
            first = next((it for it in items if it.label == lab), None)
            try:
                got = b[lab]
                exc = None
            except KeyError as e:
                got, exc = None, e
            except Exception as e:  # noqa
                ctx.fail("label-lookup-wrong-exception", f"{t}: b[{lab!r}] raised {type(e).__name__} instead of KeyError / returning")
                continue
            if first is None and exc is None:
                ctx.fail("label-absent-returns", f"{t}: b[{lab!r}] returned an item labelled {got.label!r}; no item has that label")
            elif first is not None and exc is not None:
                ctx.fail("label-present-raises", f"{t}: b[{lab!r}] raised KeyError although an item has that label")
            elif first is not None and got is not first:
                ctx.fail("label-not-first-match", f"{t}: b[{lab!r}] did not return the first item carrying that label (labels: {labels})")
            try:
                inside = lab in b
            except Exception as e:  # noqa
                ctx.fail("membership-raises", f"{t}: {lab!r} in b raised {type(e).__name__}")
                continue
            if bool(inside) != (first is not None):
                ctx.fail("membership-vs-lookup", f"{t}: ({lab!r} in b) is {inside} but lookup by that label {'succeeds' if first is not None else 'fails'} (labels: {labels})")
        for i, it in enumerate(items):
            try:
                inside = it in b
            except Exception as e:  # noqa
                ctx.fail("membership-item-raises", f"{t}: (item {i} in b) raised {type(e).__name__}: {e}")
                continue
            if not inside:
                ctx.fail("membership-item-false", f"{t}: iterated item {i} is reported as not contained")
        # foreign key types
        for key in (None, 1.5, b"a", ("a",), slice(0, 1), [0], {"a": 1}):
            try:
                b[key]
                ctx.fail("foreign-key-accepted", f"{t}: b[{key!r}] did not raise")
            except TypeError:
                pass
            except Exception as e:  # noqa
                ctx.fail("foreign-key-wrong-exception", f"{t}: b[{key!r}] raised {type(e).__name__}, expected TypeError")
            try:
                r = key in b
                if r:
                    ctx.fail("foreign-key-contained", f"{t}: ({key!r} in b) is true")
            except TypeError:
                pass
            except Exception as e:  # noqa
                ctx.fail("foreign-membership-wrong-exception", f"{t}: ({key!r} in b) raised {type(e).__name__}")
        after = specs.lib_write(b)
        if after != before or [id(x) for x in iter(b)] != [id(x) for x in items]:
            ctx.fail("block-changed", f"{t}: the block's encoding or item list changed during read-only access")
        dup = len(set(labels)) < len(labels)
        ctx.case(case, dup, labels=[t, f"items={min(n, 3)}{'+' if n >= 3 else ''}", "duplicate-label" if dup else "unique-labels",
                                    "empty-label" if "" in labels else "no-empty-label"])

    return run


SUBS = [Sub(t, make_run(t), strategy=strategy_for(t), budget=(400, 10000), shards=(1, 4),
            rule=f"{t} blocks with 0..8 (12) items, labels from {ALPHABET}") for t in TYPES]
