"""Shared helpers of the codec properties (C01 C02 C05 C06 C12 C14): case classification."""
from . import reftdf, specs

ITEM_KEYS = ("tracks", "signals", "plats", "cams", "channels", "events")


def items(spec):
    for k in ITEM_KEYS:
        if k in spec:
            return spec[k]
    return None


def rle_stats(spec):
    """(max #segments of any track, any all-missing track, any gap)"""
    if spec["t"] not in specs.RLE_TYPES:
        return 0, False, False
    mx, allmiss, gap = 0, False, False
    for it in items(spec):
        runs = reftdf.runs_of(it["frames"])
        mx = max(mx, len(runs))
        allmiss |= len(runs) == 0
        gap |= any(f is None for f in it["frames"])
    return mx, allmiss, gap


def class_labels(spec, hints=None):
    t = spec["t"]
    labs = [t]
    n = specs.n_items(spec)
    labs.append(f"{t}:items={'0' if n == 0 else '1' if n == 1 else '2+'}")
    if t in specs.RLE_TYPES:
        mx, allmiss, gap = rle_stats(spec)
        labs.append(f"{t}:segments={'0' if mx == 0 else '1' if mx == 1 else '2' if mx == 2 else '3+'}")
        if allmiss and n:
            labs.append(f"{t}:all-missing-track")
        if gap:
            labs.append(f"{t}:has-gap")
    if t == "data3D":
        labs.append("data3D:with-links" if spec["format"] == 1 and spec["links"] else "data3D:format=%d" % spec["format"])
    if t == "calib":
        labs.append("calib:BTS" if spec["format"] == 2 else "calib:Seelab1")
    if t == "data2D" and any(c is None for row in spec["cells"] for c in row):
        labs.append("data2D:none-cell")
    if t == "events":
        for e in spec["events"]:
            labs.append("events:sequence" if e["type"] else "events:single")
    its = items(spec) or []
    if any(not str(it.get(k, "")).isascii() for it in its for k in ("label", "lens", "type", "name") if isinstance(it.get(k), str)):
        labs.append("non-ascii-label")
    if hints:
        if hints.get("dtype") != "<f4":
            labs.append("input-dtype=" + hints["dtype"])
        if hints.get("order") != "C":
            labs.append("input-order=" + hints["order"])
    return sorted(set(labs))


def nontrivial_roundtrip(spec):
    """C01's rule: >= 1 item, and for run-length types a track with >= 2 segments or an all-missing track"""
    n = specs.n_items(spec)
    if n == 0:
        return False
    if spec["t"] in specs.RLE_TYPES:
        mx, allmiss, _ = rle_stats(spec)
        return mx >= 2 or allmiss
    return True


def nontrivial_size(spec):
    """C02's rule: the size formula is exercised beyond its constant term"""
    t = spec["t"]
    n = specs.n_items(spec)
    if t in specs.RLE_TYPES:
        mx, _, _ = rle_stats(spec)
        if mx >= 2:
            return True
    if t == "data3D" and spec["format"] == 1 and spec["links"]:
        return True
    if t in ("emg", "platData", "platCal", "calib") and n >= 1:
        return True
    if t == "data2D":
        flat = [c for row in spec["cells"] for c in row]
        return any(c is None for c in flat) and any(c for c in flat)
    if t == "calib" and spec["format"] == 2 and n:
        return True
    if t in ("optical", "events") and n >= 1:
        return True
    return False
