"""./check <ID> [--tier quick|thorough] [--replay PATH] [--only SUB] [--workers N]"""
import argparse
import glob
import json
import multiprocessing
import os
import sys
import time
from collections import Counter

from . import core, env


def _child(task, conn):
    """one task = one process: a task that takes its process down (killed for memory, a crash in native code) costs that task only"""
    try:
        import resource

        gb = float(os.environ.get("VERIF_MEM_GB", "4"))
        from . import registry

        if gb > 0 and registry.get_sub(task[0], task[1]).kind != "fuzz":
            # a runaway allocation (a count or an offset read from the wrong place) becomes a MemoryError inside the code under test
            # - reported like any other unexpected exception - instead of an out-of-memory kill of the whole run
            soft = int(gb * 2 ** 30)
            resource.setrlimit(resource.RLIMIT_AS, (soft, resource.getrlimit(resource.RLIMIT_AS)[1]))
    except Exception:  # noqa - without the limit the task still runs
        pass
    try:
        conn.send(core.run_task(task))
    finally:
        conn.close()


def run_parallel(tasks, workers):
    from multiprocessing.connection import wait

    ctxm = multiprocessing.get_context("fork")
    results = [None] * len(tasks)
    pending = list(range(len(tasks)))
    running = {}
    while pending or running:
        while pending and len(running) < workers:
            i = pending.pop(0)
            parent, child = ctxm.Pipe(duplex=False)
            p = ctxm.Process(target=_child, args=(tasks[i], child))
            p.start()
            child.close()
            running[i] = (p, parent)
        ready = wait([c for _, c in running.values()], timeout=5.0)
        for i, (p, c) in list(running.items()):
            if c not in ready:
                continue
            try:
                results[i] = c.recv()
            except (EOFError, OSError):
                p.join(10)
                prop, subname, tier, seed_, shard, nshards, known, deadline = tasks[i]
                r = core.Ctx(prop, subname, tier, seed_, shard, nshards, known, deadline).result()
                r["error"] = (f"the worker process of {subname}[{shard}] ended without a result (exit code {p.exitcode}: "
                              f"{'killed by signal ' + str(-p.exitcode) if (p.exitcode or 0) < 0 else 'exited'}) - out of memory or a crash in native code")
                results[i] = r
            p.join(10)
            c.close()
            del running[i]
    return results


def main(argv=None):
    try:
        import signal

        signal.signal(signal.SIGPIPE, signal.SIG_DFL)  # `./check ... | head` must not end in a traceback
    except Exception:  # noqa
        pass
    ap = argparse.ArgumentParser()
    ap.add_argument("prop")
    ap.add_argument("--tier", default=os.environ.get("VERIF_TIER") or "quick", choices=["quick", "thorough"])
    ap.add_argument("--replay")
    ap.add_argument("--only", action="append")
    ap.add_argument("--workers", type=int, default=int(os.environ.get("VERIF_WORKERS", "0")))
    ap.add_argument("--budget-scale", type=float, default=float(os.environ.get("VERIF_SCALE", "1")))
    args = ap.parse_args(argv)
    prop = args.prop.upper()
    try:
        seed = int(os.environ.get("VERIF_SEED", "1") or "1")
    except ValueError:
        seed = core.derive_seed(os.environ["VERIF_SEED"]) % (2 ** 31)
    t0 = time.time()
    try:
        env.import_library()
        env.scratch_root()
        from . import registry

        mod = registry.get_module(prop)
        subs = [s for s in mod.SUBS if not args.only or s.name in args.only]
        if not subs:
            raise env.HarnessError("no sub-check selected")
        if hasattr(mod, "selfcheck"):
            mod.selfcheck()
    except env.HarnessError as e:
        print(f"HARNESS-ERROR property={prop}: {e}")
        return core.EXIT_HARNESS
    except Exception:
        import traceback

        traceback.print_exc()
        print(f"HARNESS-ERROR property={prop}: import/selfcheck failed")
        return core.EXIT_HARNESS

    known_doc = core.load_known()
    known_entries = [k for k in known_doc.get("known", []) if k["property"] == prop]
    known_keys = {k["key"] for k in known_entries}

    # ---- single replay ---------------------------------------------------------------
    if args.replay:
        try:
            v, _ = core.replay_file(args.replay, known=())
        except Exception:
            import traceback

            traceback.print_exc()
            print(f"HARNESS-ERROR property={prop}: replay could not be executed")
            return core.EXIT_HARNESS
        if v is None:
            print(f"REPLAY-HELD property={prop} replay={args.replay}")
            return core.EXIT_OK
        if v.key in known_keys:
            print(f"KNOWN-FINDING: property={prop} {v.key}: {v.what}")
            return core.EXIT_OK
        print(f"  {v.key}: {v.what}")
        print(f"VIOLATION property={prop} replay={args.replay}")
        return core.EXIT_VIOLATION

    violations = []  # (key, what, replay path)
    harness_errors = []
    known_seen = Counter()

    # ---- regression tier: committed replay files ----------------------------------------
    replayed = 0
    for path in sorted(glob.glob(os.path.join(env.VERIF_DIR, "replays", prop, "*.json"))):
        rel = os.path.relpath(path, env.VERIF_DIR)
        try:
            with open(path) as f:
                doc = json.load(f)
            if args.only and doc["subcheck"] not in args.only:
                continue
            v, _ = core.replay_file(path, known=())
            replayed += 1
        except Exception as e:
            harness_errors.append(f"replay {rel}: {type(e).__name__}: {e}")
            continue
        if v is not None:
            if v.key in known_keys:
                known_seen[v.key] += 1
            else:
                violations.append((v.key, v.what, rel))

    # ---- generated search -----------------------------------------------------------
    workers = args.workers or min(16, os.cpu_count() or 1)
    budget_s = getattr(mod, "TIME_BUDGET", {"quick": 150, "thorough": 1500})[args.tier]
    deadline = time.time() + budget_s * args.budget_scale
    tasks = []
    for s in subs:
        ns = s.nshards(args.tier)
        if s.n(args.tier) <= 0:
            continue  # this sub-check does not run in this tier (e.g. coverage-guided campaigns in quick)
        for shard in range(ns):
            tasks.append((prop, s.name, args.tier, seed, shard, ns, tuple(known_keys), deadline))
    # longest first is unknowable; interleave so shards of one sub-check spread out
    if workers > 1 and len(tasks) > 1:
        results = run_parallel(tasks, min(workers, len(tasks)))
    else:
        results = [core.run_task(t) for t in tasks]

    per_sub = {}
    for r in results:
        m = per_sub.setdefault(r["sub"], {"evaluations": 0, "nontrivial": set(), "samples": [], "hist": Counter(),
                                          "known_hits": Counter(), "suppressed_hits": Counter(), "violations": {},
                                          "skipped_for_time": 0, "notes": [], "exhaustive": None, "shards": 0})
        m["shards"] += 1
        m["evaluations"] += r["evaluations"]
        m["nontrivial"] |= r["nontrivial"]
        for s_ in r["samples"]:
            if len(m["samples"]) < 2:
                m["samples"].append(s_)
        m["hist"].update(r["hist"])
        m["known_hits"].update(r["known_hits"])
        m["suppressed_hits"].update(r["suppressed_hits"])
        m["skipped_for_time"] += r["skipped_for_time"]
        m["notes"] += r["notes"]
        if r["exhaustive"] is not None:
            m["exhaustive"] = r["exhaustive"] if m["exhaustive"] is None else (m["exhaustive"] and r["exhaustive"])
        for v in r["violations"]:
            old = m["violations"].get(v["key"])
            if old is None or len(core.jdump(v["case"])) < len(core.jdump(old["case"])):
                m["violations"][v["key"]] = v
        if r["error"]:
            harness_errors.append(f"{r['sub']}[{r['shard']}]: {r['error']}")

    for subname, m in per_sub.items():
        for key, v in sorted(m["violations"].items()):
            rel = core.write_replay(prop, subname, v, seed, args.tier)
            violations.append((key, v["what"], rel))
        known_seen.update(m["known_hits"])

    # ---- evidence ---------------------------------------------------------------------
    total_eval = sum(m["evaluations"] for m in per_sub.values()) + replayed
    total_nontriv = sum(len(m["nontrivial"]) for m in per_sub.values())
    samples = []
    for subname, m in per_sub.items():
        for s_ in m["samples"][:2]:
            samples.append({"subcheck": subname, "case": s_})
    meta = mod.PROP
    exh = [n for n, m in per_sub.items() if m["exhaustive"]]
    ev = {
        "property_id": prop,
        "tier": args.tier,
        "seed": seed,
        "level": meta["level"],
        "coverage": {
            "evaluations": total_eval,
            "distinct_nontrivial": total_nontriv,
            "rule": meta["rule"],
            "samples": samples[:12],
            "exhaustive": bool(exh) and len(exh) == len(per_sub),
            "exhaustive_subdomains": exh,
            "replayed_regression_files": replayed,
            "workers": workers,
            "subchecks": {
                n: {"evaluations": m["evaluations"], "distinct_nontrivial": len(m["nontrivial"]),
                    "shards": m["shards"], "classes": dict(sorted(m["hist"].items())),
                    "skipped_for_time": m["skipped_for_time"],
                    "known_finding_hits": dict(m["known_hits"]),
                    "exhaustive": m["exhaustive"], "notes": sorted(set(m["notes"]))[:10],
                    "rule": registry.get_sub(prop, n).rule}
                for n, m in per_sub.items()},
        },
        "assumptions": meta.get("assumptions", []),
        "wall_s": round(time.time() - t0, 2),
        "violations": len(violations),
    }
    # evidence belongs to runs against /repo itself; sensitivity runs against a scratch copy
    # (VERIF_REPO=...) and partial runs (--only) write next to the scratch replays instead
    official = os.path.realpath(env.REPO) == os.path.realpath("/repo") and not args.only
    ev_dir = os.path.join(env.VERIF_DIR, "evidence" if official else "replays-out")
    os.makedirs(ev_dir, exist_ok=True)
    ev["coverage"]["tree_under_test"] = env.REPO
    with open(os.path.join(ev_dir, f"{prop}.json" if official else f"evidence-{prop}.json"), "w") as f:
        json.dump(json.loads(core.jdump(ev)), f, indent=1)

    # ---- report ----------------------------------------------------------------------
    print(f"[{prop}] tier={args.tier} seed={seed} cases={total_eval} distinct_nontrivial={total_nontriv} "
          f"subchecks={len(per_sub)} wall={ev['wall_s']}s")
    for n, m in per_sub.items():
        extra = f" skipped_for_time={m['skipped_for_time']}" if m["skipped_for_time"] else ""
        print(f"   {n}: cases={m['evaluations']} nontrivial={len(m['nontrivial'])}{extra}")
    for k in known_entries:
        if known_seen.get(k["key"]):
            print(f"KNOWN-FINDING: property={prop} {k['key']}: {k['what']} (hits={known_seen[k['key']]})")
    seen_keys = set()
    uniq = []
    for key, what, rel in violations:
        if key not in seen_keys:
            seen_keys.add(key)
            uniq.append((key, what, rel))
    violations = uniq
    for key, what, rel in violations:
        print(f"  {key}: {what}")
    if harness_errors:
        for h in harness_errors:
            print("HARNESS-ERROR " + h)
        if not violations:
            return core.EXIT_HARNESS
        # a violation established by another task stands on its own (its replay file reproduces it); the tasks that broke are reported above
    vacuous = [n for n, m in per_sub.items()
               if registry.get_sub(prop, n).nontrivial_required and not m["nontrivial"]
               and not m["skipped_for_time"] and not m["violations"]]
    if vacuous:
        print(f"HARNESS-ERROR property={prop}: no non-trivial case generated in {vacuous}")
        return core.EXIT_HARNESS
    if violations:
        for key, what, rel in violations:
            print(f"VIOLATION property={prop} replay={rel}")
        return core.EXIT_VIOLATION
    return core.EXIT_OK


if __name__ == "__main__":
    sys.exit(main())
