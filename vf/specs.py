"""Spec-first generation (DESIGN.md 2.1).

Hypothesis generates a *block spec* - a JSON-able dict in exactly the canonical form
reftdf.decode() returns - plus presentation hints.  From it are derived
  build(spec, hints)   the library object, through the public route a user takes
  reftdf.encode(spec)  the reference bytes
  extract(block)       the canonical form read back from a library object
"""
import os
import struct

import numpy as np
from hypothesis import strategies as st

from . import cp1252

TYPES = ["data3D", "emg", "force3D", "platData", "platCal", "data2D", "calib", "optical", "events"]
RLE_TYPES = ["data3D", "emg", "force3D", "platData"]
PER_FRAME = {"data3D": 3, "emg": 1, "force3D": 9, "platData": 6}

I32_MAX = 2 ** 31 - 1

# ---------------------------------------------------------------------------------------
# primitive strategies
_F32_SPECIAL = [0x00000000, 0x80000000, 0x00000001, 0x80000001, 0x007FFFFF, 0x00800000, 0x7F7FFFFF, 0xFF7FFFFF,
                0x3F800000, 0xBF800000, 0x3F000000, 0x40490FDB, 0x4B800000, 0x33800000]
f32bits = st.one_of(
    st.sampled_from(_F32_SPECIAL),
    st.builds(lambda s, e, m: (s << 31) | (e << 23) | m, st.integers(0, 1), st.integers(0, 254), st.integers(0, 2 ** 23 - 1)),
)
_F64_SPECIAL = [0, 1 << 63, 1, 0x000FFFFFFFFFFFFF, 0x0010000000000000, 0x7FEFFFFFFFFFFFFF, 0xFFEFFFFFFFFFFFFF,
                0x3FF0000000000000, 0x400921FB54442D18, 0x3FB999999999999A]
f64bits = st.one_of(
    st.sampled_from(_F64_SPECIAL),
    st.builds(lambda s, e, m: (s << 63) | (e << 52) | m, st.integers(0, 1), st.integers(0, 2046), st.integers(0, 2 ** 52 - 1)),
)
i32s = st.one_of(st.sampled_from([0, 1, -1, 50, 100, 1000, I32_MAX, -2 ** 31]), st.integers(-2 ** 31, I32_MAX))
pos_i32 = st.one_of(st.sampled_from([1, 2, 48, 49, 50, 100, I32_MAX]), st.integers(1, I32_MAX))
i16s = st.one_of(st.sampled_from([0, 1, -1, 32767, -32768]), st.integers(-32768, 32767))
u15s = st.one_of(st.sampled_from([0, 1, 2, 32767]), st.integers(0, 32767))
u32s = st.one_of(st.sampled_from([0, 1, 2, 2 ** 31, 2 ** 32 - 1]), st.integers(0, 2 ** 32 - 1))


def f32_list(n):
    return st.lists(f32bits, min_size=n, max_size=n)


def f64_list(n):
    return st.lists(f64bits, min_size=n, max_size=n)


def mix(seed, i):
    """splitmix64 - deterministic spreading of one drawn seed over many sample values"""
    z = (seed + 0x9E3779B97F4A7C15 * (i + 1)) & 0xFFFFFFFFFFFFFFFF
    z = ((z ^ (z >> 30)) * 0xBF58476D1CE4E5B9) & 0xFFFFFFFFFFFFFFFF
    z = ((z ^ (z >> 27)) * 0x94D049BB133111EB) & 0xFFFFFFFFFFFFFFFF
    return z ^ (z >> 31)


def finite32(h):
    """a finite float32 bit pattern from 32 hash bits"""
    e = (h >> 23) & 0xFF
    if e == 255:
        h = (h & ~(0xFF << 23)) | (254 << 23)
    return h & 0xFFFFFFFF


@st.composite
def sample_values(draw, count, per_frame):
    """`count` frames of `per_frame` finite f32 bit patterns: a drawn pool of interesting
    values mixed with hash-derived ones (few draws, large diversity, still a pure function
    of drawn data)."""
    if count == 0:
        return []
    if count * per_frame <= 12:
        flat = draw(f32_list(count * per_frame))
    else:
        pool = draw(st.lists(f32bits, min_size=1, max_size=6))
        seed = draw(st.integers(0, 2 ** 32 - 1))
        flat = []
        for i in range(count * per_frame):
            h = mix(seed, i)
            flat.append(pool[(h >> 8) % len(pool)] if h & 3 == 0 else finite32(h >> 16))
    if per_frame == 1:
        return flat
    return [flat[i * per_frame:(i + 1) * per_frame] for i in range(count)]


@st.composite
def masks(draw, n):
    """presence mask over n frames built from run lengths (long runs, single-frame runs, gaps at
    both ends, all-missing, none-missing), not from iid bits"""
    mode = draw(st.sampled_from(["full", "runs", "runs", "runs", "empty", "edge", "bits"]))
    if mode == "full" or n == 0:
        return [True] * n
    if mode == "empty":
        return [False] * n
    if mode == "bits":
        return draw(st.lists(st.booleans(), min_size=n, max_size=n))
    if mode == "edge":
        m = [True] * n
        k = draw(st.integers(1, max(1, n // 3)))
        where = draw(st.sampled_from(["start", "end", "both"]))
        if where in ("start", "both"):
            m[:k] = [False] * min(k, n)
        if where in ("end", "both"):
            m[n - k:] = [False] * min(k, n)
        return m
    state = draw(st.booleans())
    m = []
    lens = draw(st.lists(st.one_of(st.just(1), st.integers(1, max(1, n // 2))), min_size=1, max_size=10))
    for L in lens:
        m += [state] * L
        state = not state
    m = m[:n]
    m += [state] * (n - len(m))
    return m


_LABEL_SMALL = st.text(st.sampled_from("abAB _10"), max_size=4)


def labels(width):
    enc = st.sampled_from(cp1252.ENCODABLE_CHARS)
    return st.one_of(
        _LABEL_SMALL,
        st.text(st.sampled_from("abcdefghijklmnopqrstuvwxyzABCDEFGHIJKLMNOPQRSTUVWXYZ0123456789 _-."), max_size=min(20, width - 1)),
        st.text(enc, max_size=width - 1),
        st.text(st.sampled_from("0" + cp1252.HIGH_CHARS + cp1252.LATIN1_CHARS), max_size=min(12, width - 1)),
        st.integers(max(0, width - 3), width - 1).flatmap(lambda n: st.text(enc, min_size=n, max_size=n)),
    )


def sizes(tier):
    return {"items": 5, "frames": 24, "cells": 4} if tier == "quick" else {"items": 12, "frames": 160, "cells": 8}


@st.composite
def rle_frames(draw, n, per_frame):
    m = draw(masks(n))
    vals = draw(sample_values(sum(m), per_frame))
    it = iter(vals)
    return [next(it) if p else None for p in m]


LONG_N = [257, 1025, 4097, 8192, 10000, 16384, 65536 + 40, 70000, 131072 + 7]
BOUNDARIES = [256, 1024, 4096, 8192, 16384, 65536, 131072]


@st.composite
def long_mask(draw, n):
    """presence masks for long tracks: long runs, with gaps that start or end exactly at power-of-two frame numbers"""
    m = [True] * n
    mode = draw(st.sampled_from(["full", "boundary", "boundary", "many-runs", "sparse-gaps"]))
    if mode == "boundary":
        for B in [b for b in BOUNDARIES if b < n]:
            how = draw(st.sampled_from(["none", "before", "after", "across", "single-before", "single-at"]))
            k = draw(st.integers(1, 40))
            lo, hi = {"none": (0, 0), "before": (B - k, B), "after": (B, B + k), "across": (B - k, B + k),
                      "single-before": (B - 1, B), "single-at": (B, B + 1)}[how]
            for i in range(max(0, lo), min(n, hi)):
                m[i] = False
    elif mode == "many-runs":
        step = draw(st.integers(2, 5))      # hundreds / thousands of runs
        for i in range(0, n, step):
            m[i] = False
    elif mode == "sparse-gaps":
        seed = draw(st.integers(0, 2 ** 32 - 1))
        for j in range(draw(st.integers(1, 30))):
            p = mix(seed, j) % n
            for i in range(p, min(n, p + 1 + mix(seed, 1000 + j) % 9)):
                m[i] = False
    return m


@st.composite
def long_rle_spec(draw, t):
    """a block of a run-length coded type with 1-2 LONG tracks"""
    n = draw(st.sampled_from(LONG_N if t != "force3D" else LONG_N[:6]))
    k = draw(st.integers(1, 2)) if n < 20000 else 1
    pf = PER_FRAME[t]
    items = []
    for i in range(k):
        m = draw(long_mask(n))
        seed = draw(st.integers(0, 2 ** 32 - 1))
        if pf == 1:
            frames = [finite32(mix(seed, j) >> 16) if p else None for j, p in enumerate(m)]
        else:
            frames = [[finite32(mix(seed, j * pf + c) >> 16) for c in range(pf)] if p else None for j, p in enumerate(m)]
        it = {"frames": frames}
        if t != "platData":
            it["label"] = f"long{i}"
        if t in ("emg", "platData"):
            it["channel"] = i
        items.append(it)
    base = {"data3D": {"t": t, "format": draw(st.sampled_from([1, 2])), "nFrames": n, "frequency": 100, "startTime": 0, "volume": [0] * 3, "rot": [0] * 9,
                       "trans": [0] * 3, "flag": 0, "tracks": items},
            "emg": {"t": t, "format": 1, "frequency": 1000, "startTime": 0, "nSamples": n, "signals": items, "_chmode": "explicit"},
            "force3D": {"t": t, "format": 1, "frequency": 100, "startTime": 0, "nFrames": n, "volume": [0] * 3, "rot": [0] * 9, "trans": [0] * 3, "tracks": items},
            "platData": {"t": t, "format": 1, "frequency": 100, "startTime": 0, "nFrames": n, "plats": items, "_chmode": "explicit"}}[t]
    if t == "data3D":
        base["links"] = [] if base["format"] == 1 else None
    return base


def _vals(seed, n, pf):
    if pf == 1:
        return [finite32(mix(seed, j) >> 16) for j in range(n)]
    return [[finite32(mix(seed, j * pf + c) >> 16) for c in range(pf)] for j in range(n)]


def _rle_block(t, n, items, fmt=1):
    base = {"data3D": {"t": t, "format": fmt, "nFrames": n, "frequency": 100, "startTime": 0, "volume": [0] * 3, "rot": [0] * 9, "trans": [0] * 3, "flag": 0, "tracks": items,
                       "links": [] if fmt == 1 else None},
            "emg": {"t": t, "format": 1, "frequency": 1000, "startTime": 0, "nSamples": n, "signals": items, "_chmode": "explicit"},
            "force3D": {"t": t, "format": 1, "frequency": 100, "startTime": 0, "nFrames": n, "volume": [0] * 3, "rot": [0] * 9, "trans": [0] * 3, "tracks": items},
            "platData": {"t": t, "format": 1, "frequency": 100, "startTime": 0, "nFrames": n, "plats": items, "_chmode": "explicit"}}[t]
    return base


def _rle_item(t, i, frames):
    it = {"frames": frames}
    if t != "platData":
        it["label"] = f"b{i}"
    if t in ("emg", "platData"):
        it["channel"] = i
    return it


def boundary_names():
    """Deterministic blocks whose COUNTS sit on the boundaries of the integer widths a slip could narrow a field to (2^8, 2^15, 2^16):
    values per event, items per block, runs per track, frames per track, points per 2D cell, links. Random generation with bounded
    list sizes reaches these only by luck, so they are enumerated."""
    out = ["events-values=%d" % n for n in (255, 256, 65535, 65536, 65539)]
    for k in (255, 256, 257):
        out += ["events-count=%d" % k, "optical-channels=%d" % k, "platCal-platforms=%d" % k, "calib-cameras=%d" % k] + [f"{t}-items={k}" for t in RLE_TYPES]
    for t in RLE_TYPES:
        out += [f"{t}-runs={r}" for r in (127, 128, 255, 256, 257)] + [f"{t}-frames={n}" for n in (32767, 32768, 65535, 65536, 65537)]
    out += ["data3D-links=%d" % n for n in (255, 256, 65535, 65536)] + ["data2D-cell-points=%d" % n for n in (255, 256, 32767, 32768, 65535)]
    return out


def boundary_spec(name):
    ONE = 0x3F800000
    kind, n = name.rsplit("=", 1)
    n = k = int(n)
    if kind == "events-values":
        return {"t": "events", "format": 1, "startTime": 0, "events": [
            {"label": "first", "type": 0, "values": [ONE]}, {"label": "big", "type": 1, "values": [finite32(mix(n, j) >> 16) for j in range(n)]},
            {"label": "after", "type": 1, "values": [ONE, ONE + 1]}]}
    if kind == "events-count":
        return {"t": "events", "format": 1, "startTime": 0, "events": [{"label": f"e{i}", "type": 0, "values": [ONE + i]} for i in range(k)]}
    if kind == "optical-channels":
        return {"t": "optical", "format": 1, "channels": [{"index": i, "lens": "l", "type": "t", "name": f"c{i}", "vp": [0, 0, i, i]} for i in range(k)]}
    if kind == "platCal-platforms":
        return {"t": "platCal", "format": 2, "_chmode": "explicit", "plats": [{"channel": i, "label": f"p{i}", "size": [ONE, ONE], "position": [ONE + i] * 12} for i in range(k)]}
    if kind == "calib-cameras":
        cam = {"rot": [0] * 9, "trans": [0] * 3, "focus": [0] * 2, "center": [0] * 2, "radial": [0, 0], "decentering": [0, 0], "prism": [0, 0], "vp": [0, 0, 1, 1]}
        return {"t": "calib", "format": 1, "model": 0, "volume": [0] * 3, "rot": [0] * 9, "trans": [0] * 3, "map": list(range(k)), "cams": [dict(cam, trans=[i, 0, 0]) for i in range(k)]}
    if kind == "data3D-links":
        return dict(_rle_block("data3D", 1, [_rle_item("data3D", 0, _vals(1, 1, 3))]), links=[[i, i + 1] for i in range(n)])
    if kind == "data2D-cell-points":
        return {"t": "data2D", "format": 2, "nCams": 2, "nFrames": 1, "frequency": 100, "startTime": 0, "flags": 0, "camMap": [0, 1],
                "cells": [[[[finite32(mix(n, 2 * j) >> 16), finite32(mix(n, 2 * j + 1) >> 16)] for j in range(n)], [[ONE, ONE]]]]}
    t, what = kind.split("-")
    pf = PER_FRAME[t]
    if what == "items":
        return _rle_block(t, 2, [_rle_item(t, i, _vals(i, 2, pf)) for i in range(k)])
    if what == "runs":
        m = 2 * n + 1
        v = _vals(n, m, pf)
        return _rle_block(t, m, [_rle_item(t, 0, [v[j] if j % 2 else None for j in range(m)])])
    v = _vals(n, n, pf)   # frames: one long run, a one-frame gap in the middle, a second run ending at the last frame
    return _rle_block(t, n, [_rle_item(t, 0, [None if j == n // 2 else v[j] for j in range(n)])])


def long_run_names():
    """Deterministic: one gap-free run long enough to cross any I/O / buffer threshold (8189 .. 65537 frames) in every input dtype, byte
    order and memory layout, for each run-length coded type"""
    out = []
    for t in RLE_TYPES:
        for n in (8191, 8192, 16384, 65539):
            if t == "force3D" and n > 20000:
                n = 20001
            for dt in ("<f4", "<f8", ">f4", ">f8"):
                for order in ("C", "F") if PER_FRAME[t] > 1 else ("C",):
                    out.append(f"{t}|{n}|{dt}|{order}")
    return out


def long_run_case(name):
    t, n, dt, order = name.split("|")
    n = int(n)
    v = _vals(n, n, PER_FRAME[t])
    return {"spec": _rle_block(t, n, [_rle_item(t, 0, [None] + v[1:-1] + [None])]), "hints": {"dtype": dt, "order": order, "ints": "py", "scalar": "py", "nan": "pos"}}


def same_shape_other_data(spec):
    """a block of the same type, format and shape (item count, frame count, value counts) holding other samples and other gap positions;
    None if the type carries no sample arrays"""
    import copy

    t = spec["t"]
    s2 = copy.deepcopy(spec)
    flip = lambda b: b ^ 0x00000400  # noqa - a mantissa bit: finite stays finite
    if t in RLE_TYPES:
        its = s2["signals" if t == "emg" else "plats" if t == "platData" else "tracks"]
        if not its:
            return None
        for it in its:
            fr = it["frames"]
            fr = fr[1:] + fr[:1]
            it["frames"] = [None if f is None else (flip(f) if isinstance(f, int) else [flip(x) for x in f]) for f in fr]
        return s2
    if t == "events":
        if not any(e["values"] for e in s2["events"]):
            return None
        for e in s2["events"]:
            e["values"] = [flip(v) for v in e["values"]]
        return s2
    return None


def expand_case(case):
    """(spec, hints) of a case; enumerated boundary / long-run cases carry only a name (the evidence stays small) and are built here"""
    if "boundary" in case:
        return boundary_spec(case["boundary"]), dict(PLAIN_HINTS)
    if "longrun" in case:
        c = long_run_case(case["longrun"])
        return c["spec"], c["hints"]
    return case["spec"], case.get("hints")


def enum_boundary(tier):
    for name in boundary_names():
        yield {"boundary": name}


def enum_boundary_rle(tier):
    for name in boundary_names():
        if name.split("-")[0] in RLE_TYPES and not name.startswith("data3D-links"):
            yield {"boundary": name}


def enum_long_runs(tier):
    for name in long_run_names():
        yield {"longrun": name}


def long_block_case(tier):
    return st.sampled_from(RLE_TYPES).flatmap(lambda t: st.fixed_dictionaries({"spec": long_rle_spec(t), "hints": HINTS}))


HINTS = st.fixed_dictionaries({
    "dtype": st.sampled_from(["<f4", "<f4", "<f8", ">f4", ">f8"]),
    "order": st.sampled_from(["C", "C", "F", "rev"]),
    "ints": st.sampled_from(["py", "np"]),
    "scalar": st.sampled_from(["py", "np32"]),
    "stray_links": st.sampled_from([False, False, True]),
    "nan": st.sampled_from(["pos", "pos", "neg", "payload", "mixed"]),
    "readonly": st.sampled_from([False, False, False, True]),
    "text": st.sampled_from(["str", "str", "str", "subclass", "numpy"]),
    "seq": st.sampled_from(["list", "list", "tuple"]),
})
PLAIN_HINTS = {"dtype": "<f4", "order": "C", "ints": "py", "scalar": "py"}


# ---------------------------------------------------------------------------------------
# spec strategies, one per block type
@st.composite
def spec_data3D(draw, tier, min_items=0):
    z = sizes(tier)
    k = draw(st.integers(min_items, z["items"]))
    n = draw(st.integers(1, z["frames"])) if k else draw(st.one_of(st.integers(1, z["frames"]), pos_i32))
    fmt = draw(st.sampled_from([1, 1, 2]))
    s = {"t": "data3D", "format": fmt, "nFrames": n, "frequency": draw(i32s), "startTime": draw(f32bits),
         "volume": draw(f32_list(3)), "rot": draw(f32_list(9)), "trans": draw(f32_list(3)), "flag": draw(st.integers(0, 1))}
    if fmt == 1:
        s["links"] = draw(st.lists(st.lists(u32s, min_size=2, max_size=2), max_size=8))
    else:
        s["links"] = None
    s["tracks"] = [{"label": draw(labels(256)), "frames": draw(rle_frames(n, 3))} for _ in range(k)]
    return s


@st.composite
def channels_i16(draw, k, lo=-32768, hi=32767):
    mode = draw(st.sampled_from(["auto", "explicit", "explicit"]))
    if mode == "auto":
        return list(range(k)), "auto"
    ch = draw(st.lists(st.one_of(st.integers(0, 12), st.integers(lo, hi)), min_size=k, max_size=k, unique=True))
    return ch, "explicit"


@st.composite
def spec_emg(draw, tier, min_items=0):
    z = sizes(tier)
    k = draw(st.integers(min_items, z["items"]))
    n = draw(st.integers(1, z["frames"] * 2)) if k else draw(st.one_of(st.integers(1, z["frames"]), pos_i32))
    ch, mode = draw(channels_i16(k))
    return {"t": "emg", "format": 1, "frequency": draw(i32s), "startTime": draw(f32bits), "nSamples": n,
            "signals": [{"label": draw(labels(256)), "channel": ch[i], "frames": draw(rle_frames(n, 1))} for i in range(k)],
            "_chmode": mode}


@st.composite
def spec_force3D(draw, tier, min_items=0):
    z = sizes(tier)
    k = draw(st.integers(min_items, z["items"]))
    n = draw(st.integers(1, z["frames"])) if k else draw(st.one_of(st.integers(1, z["frames"]), pos_i32))
    return {"t": "force3D", "format": 1, "frequency": draw(i32s), "startTime": draw(f32bits), "nFrames": n,
            "volume": draw(f32_list(3)), "rot": draw(f32_list(9)), "trans": draw(f32_list(3)),
            "tracks": [{"label": draw(labels(256)), "frames": draw(rle_frames(n, 9))} for _ in range(k)]}


@st.composite
def spec_platData(draw, tier, min_items=0):
    z = sizes(tier)
    k = draw(st.integers(min_items, z["items"]))
    n = draw(st.integers(1, z["frames"])) if k else draw(st.one_of(st.integers(1, z["frames"]), pos_i32))
    ch, mode = draw(channels_i16(k, 0, 65535))
    return {"t": "platData", "format": 1, "frequency": draw(i32s), "startTime": draw(f32bits), "nFrames": n,
            "plats": [{"channel": ch[i], "frames": draw(rle_frames(n, 6))} for i in range(k)], "_chmode": mode}


@st.composite
def spec_platCal(draw, tier, min_items=0):
    z = sizes(tier)
    k = draw(st.integers(min_items, z["items"]))
    ch, mode = draw(channels_i16(k))
    return {"t": "platCal", "format": 2,
            "plats": [{"channel": ch[i], "label": draw(labels(256)), "size": draw(f32_list(2)), "position": draw(f32_list(12))}
                      for i in range(k)], "_chmode": mode}


@st.composite
def spec_data2D(draw, tier, min_items=0):
    z = sizes(tier)
    nc = draw(st.integers(min_items, z["items"]))
    nf = draw(st.integers(1, max(2, z["frames"] // 3)))
    big = None
    if nc and draw(st.integers(0, 24)) == 0:
        big = ((draw(st.integers(0, nf - 1)), draw(st.integers(0, nc - 1))), draw(st.sampled_from([8191, 8192, 8193, 16384, 40000, 65535])))
    cells = []
    for f in range(nf):
        row = []
        for c in range(nc):
            kind = draw(st.sampled_from(["none", "pts", "pts", "one"]))
            if kind == "none":
                row.append(None)
            elif big is not None and (f, c) == big[0]:
                row.append(draw(sample_values(big[1], 2)))  # a cell whose byte size does not fit 16 bits
            else:
                npts = 1 if kind == "one" else draw(st.integers(1, z["cells"]))
                row.append(draw(sample_values(npts, 2)))
        cells.append(row)
    return {"t": "data2D", "format": 2, "nCams": nc, "nFrames": nf, "frequency": draw(i32s), "startTime": draw(f32bits),
            "flags": draw(st.integers(0, 1)), "camMap": draw(st.lists(u15s, min_size=nc, max_size=nc)), "cells": cells}


vp_strategy = st.lists(i32s, min_size=4, max_size=4)


@st.composite
def spec_calib(draw, tier, min_items=0):
    z = sizes(tier)
    fmt = draw(st.sampled_from([1, 2]))
    k = draw(st.integers(min_items, z["items"] if fmt == 1 else min(3, z["items"])))
    cams = []
    for _ in range(k):
        c = {"rot": draw(f64_list(9)), "trans": draw(f64_list(3)), "focus": draw(f64_list(2)), "center": draw(f64_list(2))}
        if fmt == 1:
            c["radial"], c["decentering"], c["prism"] = draw(f64_list(2)), draw(f64_list(2)), draw(f64_list(2))
        else:
            pool = draw(st.lists(f64bits, min_size=1, max_size=5))
            seed = draw(st.integers(0, 2 ** 32 - 1))
            c["xd"] = [pool[mix(seed, i) % len(pool)] for i in range(70)]
            c["yd"] = [pool[mix(seed, 100 + i) % len(pool)] for i in range(70)]
        c["vp"] = draw(vp_strategy)
        cams.append(c)
    return {"t": "calib", "format": fmt, "model": draw(st.integers(0, 3)), "volume": draw(f32_list(3)), "rot": draw(f32_list(9)),
            "trans": draw(f32_list(3)), "map": draw(st.lists(i16s, min_size=k, max_size=k)), "cams": cams}


@st.composite
def spec_optical(draw, tier, min_items=0):
    z = sizes(tier)
    k = draw(st.integers(min_items, z["items"]))
    return {"t": "optical", "format": 1,
            "channels": [{"index": draw(i32s), "lens": draw(labels(32)), "type": draw(labels(32)), "name": draw(labels(32)),
                          "vp": draw(vp_strategy)} for _ in range(k)]}


@st.composite
def spec_events(draw, tier, min_items=0):
    z = sizes(tier)
    k = draw(st.integers(min_items, z["items"]))
    evs = []
    huge = k and draw(st.integers(0, 30)) == 0
    for i in range(k):
        typ = draw(st.integers(0, 1))
        if huge and i == k - 1:
            typ = 1
            vals = draw(sample_values(draw(st.sampled_from([65535, 65536, 65539, 70000])), 1))  # count does not fit 16 bits
        else:
            vals = draw(st.lists(f32bits, max_size=1)) if typ == 0 else draw(st.lists(f32bits, max_size=z["cells"] * 2))
        evs.append({"label": draw(labels(256)), "type": typ, "values": vals})
    return {"t": "events", "format": 1, "startTime": draw(f32bits), "events": evs}


SPEC = {"data3D": spec_data3D, "emg": spec_emg, "force3D": spec_force3D, "platData": spec_platData, "platCal": spec_platCal,
        "data2D": spec_data2D, "calib": spec_calib, "optical": spec_optical, "events": spec_events}


def block_case(t, tier, min_items=0):
    return st.fixed_dictionaries({"spec": SPEC[t](tier, min_items), "hints": HINTS})


def any_block_case(tier, types=TYPES, min_items=0):
    return st.sampled_from(types).flatmap(lambda t: block_case(t, tier, min_items))


def n_items(spec):
    for k in ("tracks", "signals", "plats", "cams", "channels", "events"):
        if k in spec:
            return len(spec[k])
    return spec["nCams"]


def canon(spec):
    """what a decode of the stored spec must give back (drops generation-only keys)"""
    s = {k: v for k, v in spec.items() if not k.startswith("_")}
    if s["t"] == "data2D":
        s["cells"] = [[(c if c else None) for c in row] for row in s["cells"]]
    return s


# ---------------------------------------------------------------------------------------
# floats <-> bits (independent of numpy's casting for the f64 -> f32 direction)
def f32_of(bits):
    return struct.unpack("<f", struct.pack("<I", bits))[0]


def f64_of(bits):
    return struct.unpack("<d", struct.pack("<Q", bits))[0]


def bits_of_f32(x):
    return struct.unpack("<I", struct.pack("<f", x))[0]


def arr32(bits, shape, hints):
    """numpy array holding exactly the float32 values `bits`, presented per hints"""
    a = np.array(bits, dtype="<u4").view("<f4").reshape(shape)
    dt = hints.get("dtype", "<f4")
    if dt != "<f4":
        a = a.astype(dt)  # widening / byte swapping is exact
    order = hints.get("order", "C")
    if order == "F" and a.ndim >= 2:
        a = np.asfortranarray(a)
    elif order == "rev" and a.ndim >= 1 and a.shape[0] > 0:
        a = a[::-1].copy()[::-1]  # same values, negative strides
    else:
        a = a.copy()
    if hints.get("readonly"):
        a.flags.writeable = False   # what np.frombuffer / a read-only memmap / broadcast_to hand out: an encoder only reads its input
    return a


def _ro(a, h):
    if h.get("readonly"):
        a.flags.writeable = False
    return a


def arr64(bits, shape):
    return np.array(bits, dtype="<u8").view("<f8").reshape(shape).copy()


def bits32(arr):
    """on-disk float32 bit patterns of an array the library holds (bit-exact for f4; independent
    struct narrowing for anything wider)"""
    a = np.asarray(arr)
    if a.dtype == np.dtype("<f4"):
        return np.ascontiguousarray(a).view("<u4").reshape(-1).tolist()
    if a.dtype == np.dtype(">f4"):
        return np.ascontiguousarray(a.astype("<f4")).view("<u4").reshape(-1).tolist()
    out = []
    for x in a.reshape(-1).tolist():
        try:
            out.append(bits_of_f32(float(x)))
        except OverflowError:
            out.append(0x7F800000 if x > 0 else 0xFF800000)
    return out


def bits64(arr):
    a = np.asarray(arr)
    if a.dtype.kind == "f" and a.dtype.itemsize == 8:
        return np.ascontiguousarray(a.astype("<f8")).view("<u8").reshape(-1).tolist()
    return [struct.unpack("<Q", struct.pack("<d", float(x)))[0] for x in a.reshape(-1).tolist()]


def scal32(bits, hints):
    v = f32_of(bits)
    return np.float32(v) if hints.get("scalar") == "np32" else v


def sbits(x):
    """f32 bit pattern of a scalar header field as the library holds it"""
    return bits32(np.asarray(x))[0] if isinstance(x, (np.floating, np.ndarray)) else bits_of_f32(float(x))


def ival(v, hints):
    return np.int64(v) if hints.get("ints") == "np" and -2 ** 63 <= v < 2 ** 63 else v


NAN32 = 0x7FC00000


def frames_to_array(frames, per_frame, hints):
    """(n, per_frame) [or (n,)] array with NaN rows for missing frames"""
    flat = []
    kind = (hints or {}).get("nan", "pos")
    for i, f in enumerate(frames):
        if f is None:
            # a missing frame is ANY NaN: the default quiet NaN, one with the sign bit set (what -nan / inf-inf give), one with payload bits
            nan = {"pos": NAN32, "neg": 0xFFC00000, "payload": 0x7FC12345, "mixed": (NAN32, 0xFFC00000, 0xFFFFFFFF, 0x7FC00001)[i % 4]}[kind]
            flat.extend([nan] * per_frame)
        elif per_frame == 1:
            flat.append(f)
        else:
            flat.extend(f)
    shape = (len(frames),) if per_frame == 1 else (len(frames), per_frame)
    return arr32(flat, shape, hints)


def array_to_frames(arrs, scalar=False):
    """frames (None | bits) from one or several coupled arrays of equal length.
    A frame is None only if *every* component of every array is NaN; a frame with some NaN
    components is reported as {"partial": bits} so that it can never equal a spec frame."""
    cols = []
    for a in arrs:
        a = np.asarray(a)
        n = a.shape[0]
        cols.append((np.array(bits32(a), dtype=np.uint64).reshape(n, -1), np.isnan(a.astype("<f8")).reshape(n, -1)))
    n = cols[0][0].shape[0]
    out = []
    for i in range(n):
        bits, nans = [], []
        for b, m in cols:
            bits.extend(int(x) for x in b[i])
            nans.extend(bool(x) for x in m[i])
        if all(nans):
            out.append(None)
        elif any(nans):
            out.append({"partial": bits})
        else:
            out.append(bits[0] if scalar else bits)
    return out


# ---------------------------------------------------------------------------------------
# build: spec -> library object, by the public route
class TaggedStr(str):
    """a str subclass whose renderings are not its content (a (str, Enum) member, a translation proxy, a tagged string): it IS that text"""

    def __str__(self):
        return "TaggedStr.MEMBER"

    def __repr__(self):
        return "<TaggedStr.MEMBER>"

    def __format__(self, spec):
        return "TaggedStr.MEMBER"


def _txt(x, h):
    """a label / name in the str type the hints ask for"""
    kind = h.get("text", "str")
    if kind == "subclass":
        return TaggedStr(x)
    if kind == "numpy":
        return np.str_(x)
    return x


def build(spec, hints=None):
    h = hints or PLAIN_HINTS
    return BUILDERS[spec["t"]](spec, h)


def _b_data3D(s, h):
    from basictdf.tdfData3D import Data3D, Data3dBlockFormat, Flags, LinkType, MarkerTrack

    d = Data3D(ival(s["frequency"], h), ival(s["nFrames"], h), arr32(s["volume"], (3,), h), arr32(s["rot"], (3, 3), h),
               arr32(s["trans"], (3,), h), scal32(s["startTime"], h), Flags(s["flag"]), Data3dBlockFormat(s["format"]))
    if s["format"] == 1 and (s["links"] or h.get("ints") == "np"):
        pairs = [tuple(p) for p in s["links"]]
        d.links = np.array(pairs, dtype=LinkType.btype) if h.get("ints") == "np" else pairs
    elif s["format"] == 2 and h.get("stray_links"):
        # a block switched to the without-links format may still carry a links attribute; that format stores none
        d.links = [(1, 2), (3, 4), (5, 6)]
    for t in s["tracks"]:
        d.add_track(MarkerTrack(_txt(t["label"], h), frames_to_array(t["frames"], 3, h)))
    return d


def _b_emg(s, h):
    from basictdf.tdfEMG import EMG, EMGBlockFormat, EMGTrack

    e = EMG(ival(s["frequency"], h), ival(s["nSamples"], h), scal32(s["startTime"], h), EMGBlockFormat(s["format"]))
    for g in s["signals"]:
        tr = EMGTrack(_txt(g["label"], h), frames_to_array(g["frames"], 1, h))
        if s.get("_chmode") == "auto":
            e.addSignal(tr)
        else:
            e.addSignal(tr, channel=ival(g["channel"], h))
    return e


def _present(arr, dt):
    """arr given in another dtype if (and only if) every value survives the change exactly; else arr itself"""
    if not dt:
        return arr
    try:
        with np.errstate(all="ignore"):
            c = arr.astype(dt)
            back = c.astype(arr.dtype)
    except (ValueError, TypeError):
        return arr
    if np.dtype(dt).kind in "iu" and np.isnan(arr.astype("<f8")).any():
        return arr
    return c if np.array_equal(back, arr, equal_nan=True) else arr


def _coupled(h, i):
    c = h.get("coupled")
    return c[i] if c else None


def _b_force3D(s, h):
    from basictdf.tdfForce3D import ForceTorque3D, ForceTorque3DBlockFormat, ForceTorqueTrack

    f = ForceTorque3D(ival(s["frequency"], h), ival(s["nFrames"], h), arr32(s["volume"], (3,), h), arr32(s["rot"], (3, 3), h),
                      arr32(s["trans"], (3,), h), scal32(s["startTime"], h), ForceTorque3DBlockFormat(s["format"]))
    for t in s["tracks"]:
        a = frames_to_array(t["frames"], 9, h)
        f.add_track(ForceTorqueTrack(_txt(t["label"], h), _ro(_present(a[:, 0:3].copy(), _coupled(h, 0)), h), _ro(_present(a[:, 3:6].copy(), _coupled(h, 1)), h),
                                     _ro(_present(a[:, 6:9].copy(), _coupled(h, 2)), h)))
    return f


def _b_platData(s, h):
    from basictdf.tdfForcePlatformsData import ForcePlatformData, ForcePlatformsDataBlock

    b = ForcePlatformsDataBlock(scal32(s["startTime"], h), ival(s["frequency"], h), ival(s["nFrames"], h))
    for p in s["plats"]:
        a = frames_to_array(p["frames"], 6, h)
        plat = ForcePlatformData(_ro(_present(a[:, 0:2].copy(), _coupled(h, 0)), h), _ro(_present(a[:, 2:5].copy(), _coupled(h, 1)), h),
                                 _ro(_present(a[:, 5].copy(), _coupled(h, 2)), h))
        if s.get("_chmode") == "auto":
            b.add_platform(plat)
        else:
            b.add_platform(plat, channel=ival(p["channel"], h))
    return b


def _b_platCal(s, h):
    from basictdf.tdfForcePlatformsCalibration import ForcePlatformInfo, ForcePlatformsCalibrationDataBlock

    b = ForcePlatformsCalibrationDataBlock()
    for p in s["plats"]:
        size = arr32(p["size"], (2,), h)
        if h.get("scalar") == "py":
            size = tuple(float(x) for x in size)  # upstream's own tests pass a tuple
        info = ForcePlatformInfo(_txt(p["label"], h), size, arr32(p["position"], (4, 3), h))
        if s.get("_chmode") == "auto":
            b.add_platform(info)
        else:
            b.add_platform(info, channel=ival(p["channel"], h))
    return b


def _b_data2D(s, h):
    from basictdf.tdfData2D import Data2D, Data2DBlockFormat, Data2DFlags

    d = Data2D(ival(s["nCams"], h), ival(s["nFrames"], h), ival(s["frequency"], h), scal32(s["startTime"], h),
               Data2DFlags(s["flags"]), Data2DBlockFormat(s["format"]))
    data = np.empty((s["nFrames"], s["nCams"]), dtype=object)
    data[:] = None
    for f in range(s["nFrames"]):
        for c in range(s["nCams"]):
            cell = s["cells"][f][c]
            if cell:
                data[f, c] = arr32([x for pt in cell for x in pt], (len(cell), 2), h)
    d.data = data
    d._camMap = [ival(x, h) for x in s["camMap"]] if h.get("ints") == "py" else np.array(s["camMap"], dtype="<u2")
    return d


def _viewport(vp, h):
    from basictdf.tdfTypes import CameraViewPort

    if h.get("order") == "F":  # the documented (2,2) array form
        return np.array([vp[0:2], vp[2:4]], dtype="<i4")
    return CameraViewPort(np.array(vp[0:2], dtype="<i4"), np.array(vp[2:4], dtype="<i4"))


def _b_calib(s, h):
    from basictdf.tdfCalibrationData import (BTSCameraData, CalibrationDataBlock, CalibrationDataBlockFormat, DistorsionModel,
                                             SeelabCameraData)

    cams = []
    for c in s["cams"]:
        if s["format"] == 1:
            cams.append(SeelabCameraData(arr64(c["rot"], (3, 3)), arr64(c["trans"], (3,)), arr64(c["focus"], (2,)),
                                         arr64(c["center"], (2,)), arr64(c["radial"], (2,)), arr64(c["decentering"], (2,)),
                                         arr64(c["prism"], (2,)), _viewport(c["vp"], h)))
        else:
            cams.append(BTSCameraData(arr64(c["rot"], (3, 3)), arr64(c["trans"], (3,)), arr64(c["focus"], (2,)),
                                      arr64(c["center"], (2,)), arr64(c["xd"], (70,)), arr64(c["yd"], (70,)), _viewport(c["vp"], h)))
    return CalibrationDataBlock(DistorsionModel(s["model"]), arr32(s["volume"], (3,), h), arr32(s["rot"], (3, 3), h),
                                arr32(s["trans"], (3,), h), np.array(s["map"], dtype="<i2" if h.get("ints") == "py" else "<i8"),
                                cams, CalibrationDataBlockFormat(s["format"]))


def _b_optical(s, h):
    from basictdf.tdfOpticalSystem import OpticalChannelData, OpticalSetupBlock, OpticalSetupBlockFormat

    chans = [OpticalChannelData(ival(c["index"], h), _txt(c["lens"], h), _txt(c["type"], h), _txt(c["name"], h), _viewport(c["vp"], h)) for c in s["channels"]]
    # (the constructor keeps the sequence it is given: a tuple of channels is as good a sequence as a list for everything the block does)
    return OpticalSetupBlock(OpticalSetupBlockFormat(s["format"]), tuple(chans) if h.get("seq") == "tuple" else list(chans))


def _b_events(s, h):
    from basictdf.tdfEvents import Event, EventsDataType, TemporalEventsData, TemporalEventsDataFormat

    t = TemporalEventsData(TemporalEventsDataFormat(s["format"]), scal32(s["startTime"], h))
    for ev in s["events"]:
        if h.get("dtype") == "<f4":
            vals = np.array(ev["values"], dtype="<u4").view("<f4")
        elif h.get("dtype") == "<f8":
            vals = [f32_of(b) for b in ev["values"]]
        else:
            vals = tuple(f32_of(b) for b in ev["values"])
        t.events.append(Event(_txt(ev["label"], h), vals, EventsDataType(ev["type"])))
    return t


BUILDERS = {"data3D": _b_data3D, "emg": _b_emg, "force3D": _b_force3D, "platData": _b_platData, "platCal": _b_platCal,
            "data2D": _b_data2D, "calib": _b_calib, "optical": _b_optical, "events": _b_events}


# ---------------------------------------------------------------------------------------
# extract: library object -> canonical spec, public attributes only
def lib_class(t):
    import basictdf.tdfCalibrationData as c
    import basictdf.tdfData2D as d2
    import basictdf.tdfData3D as d3
    import basictdf.tdfEMG as em
    import basictdf.tdfEvents as ev
    import basictdf.tdfForce3D as f3
    import basictdf.tdfForcePlatformsCalibration as pc
    import basictdf.tdfForcePlatformsData as pd
    import basictdf.tdfOpticalSystem as op

    return {"data3D": d3.Data3D, "emg": em.EMG, "force3D": f3.ForceTorque3D, "platData": pd.ForcePlatformsDataBlock,
            "platCal": pc.ForcePlatformsCalibrationDataBlock, "data2D": d2.Data2D, "calib": c.CalibrationDataBlock,
            "optical": op.OpticalSetupBlock, "events": ev.TemporalEventsData}[t]


def type_of(block):
    for t in TYPES:
        if isinstance(block, lib_class(t)):
            return t
    raise TypeError(type(block))


def _vp(v):
    return [int(x) for x in np.asarray(v.origin).reshape(-1)] + [int(x) for x in np.asarray(v.size).reshape(-1)]


def extract(block):
    t = type_of(block)
    b = block
    if t == "data3D":
        s = {"t": t, "format": b.format.value, "nFrames": int(b.nFrames), "frequency": int(b.frequency), "startTime": sbits(b.startTime),
             "volume": bits32(b.volume), "rot": bits32(b.rotationMatrix), "trans": bits32(b.translationVector), "flag": b.flag.value}
        if b.format.value in (1, 3):
            links = b.links if hasattr(b, "links") else []
            s["links"] = [[int(l[0]), int(l[1])] for l in links]
        else:
            s["links"] = None
        s["tracks"] = [{"label": tr.label, "frames": array_to_frames([tr.data])} for tr in b]
        return s
    if t == "emg":
        return {"t": t, "format": b.format.value, "frequency": int(b.frequency), "startTime": sbits(b.startTime), "nSamples": int(b.nSamples),
                "signals": [{"label": g.label, "channel": int(ch), "frames": array_to_frames([g.data], scalar=True)}
                            for ch, g in zip(list(b._emgMap), list(b))]}
    if t == "force3D":
        return {"t": t, "format": b.format.value, "frequency": int(b.frequency), "startTime": sbits(b.startTime), "nFrames": int(b.nFrames),
                "volume": bits32(b.volume), "rot": bits32(b.rotationMatrix), "trans": bits32(b.translationVector),
                "tracks": [{"label": tr.label, "frames": array_to_frames([tr.application_point, tr.force, tr.torque])} for tr in b]}
    if t == "platData":
        return {"t": t, "format": b.format.value, "frequency": int(b.frequency), "startTime": sbits(b.start_time), "nFrames": int(b.n_frames),
                "plats": [{"channel": int(ch), "frames": array_to_frames([p.application_point, p.force, np.asarray(p.torque).reshape(-1, 1)])}
                          for ch, p in b]}
    if t == "platCal":
        return {"t": t, "format": b.format.value,
                "plats": [{"channel": int(ch), "label": p.label, "size": bits32(np.asarray(p.size, dtype="<f4") if not isinstance(p.size, np.ndarray) else p.size),
                           "position": bits32(p.position)} for ch, p in b.platforms]}
    if t == "data2D":
        cells = []
        data = b.data
        for f in range(int(b.nFrames)):
            row = []
            for c in range(int(b.nCams)):
                cell = data[f, c]
                if cell is None or len(cell) == 0:
                    row.append(None)
                else:
                    v = bits32(cell)
                    row.append([v[2 * i:2 * i + 2] for i in range(len(v) // 2)])
            cells.append(row)
        return {"t": t, "format": b.format.value, "nCams": int(b.nCams), "nFrames": int(b.nFrames), "frequency": int(b.frequency),
                "startTime": sbits(b.startTime), "flags": b.flags.value, "camMap": [int(x) for x in b._camMap], "cells": cells}
    if t == "calib":
        cams = []
        for c in b.cam_data:
            d = {"rot": bits64(c.rotation_matrix), "trans": bits64(c.translation_vector), "focus": bits64(c.focus),
                 "center": bits64(c.optical_center)}
            if int(b.format) == 1:
                d["radial"], d["decentering"], d["prism"] = bits64(c.radial_distortion), bits64(c.decentering), bits64(c.thin_prism)
            else:
                d["xd"], d["yd"] = bits64(c.x_distortion_coefficients), bits64(c.y_distortion_coefficients)
            d["vp"] = _vp(c.view_port)
            cams.append(d)
        return {"t": t, "format": int(b.format), "model": int(b.distorsion_model), "volume": bits32(b.calibration_volume_size),
                "rot": bits32(b.calibration_volume_rotation_matrix), "trans": bits32(b.calibration_volume_translation_vector),
                "map": [int(x) for x in b.cameras_calibration_map], "cams": cams}
    if t == "optical":
        return {"t": t, "format": b.format.value,
                "channels": [{"index": int(c.logical_camera_index), "lens": c.lens_name, "type": c.camera_type, "name": c.camera_name,
                              "vp": _vp(c.camera_viewport)} for c in b]}
    if t == "events":
        return {"t": t, "format": b.format.value, "startTime": sbits(b.start_time),
                "events": [{"label": e.label, "type": e.type.value, "values": bits32(e.values)} for e in b]}
    raise TypeError(t)


def lib_write(block, sink=None):
    """the bytes block._write puts into a binary stream. The stream is not always a pristine BytesIO at position 0: in rotation it is
    a BytesIO that already holds other bytes (0xAA) before AND under the place the block goes (what is written must not depend on what
    was there), a real file opened 'wb' / 'r+b', or a gzip stream (a stream whose fileno() is not its own byte sequence).
    sink: force one of "fresh", "prefilled", "file", "gzip"."""
    import io

    if sink is None:
        # a pure function of the block (its declared size), so that a saved case replays into the same kind of stream
        try:
            n = int(block.nBytes)
        except Exception:  # noqa - e.g. an item that cannot be sized: any stream will do
            n = 0
        sink = ("fresh", "prefilled", "fresh", "prefilled", "append", "file", "prefilled", "gzip")[(n // 4 + n // 36 + len(type(block).__name__)) % 8]
    if sink == "fresh":
        b = io.BytesIO()
        block._write(b)
        return b.getvalue()
    if sink == "prefilled":
        head = 5
        b = io.BytesIO(b"\xaa" * (head + 65536))
        b.seek(head)
        block._write(b)
        end = b.tell()
        return b.getvalue()[head:end]
    from . import env

    d = env.fresh_dir()
    try:
        path = os.path.join(d, "w.bin")
        if sink == "append":
            # a file opened for appending: it claims to be seekable, but every write goes to the end
            with open(path, "wb") as f:
                f.write(b"\x55" * 11)
            with open(path, "ab") as f:
                block._write(f)
            with open(path, "rb") as f:
                return f.read()[11:]
        if sink == "file":
            with open(path, "wb") as f:
                f.write(b"\x55" * 7)
            with open(path, "r+b") as f:
                f.seek(7)
                block._write(f)
                end = f.tell()
            with open(path, "rb") as f:
                return f.read()[7:end]
        import gzip

        with gzip.open(path, "wb") as f:
            block._write(f)
        try:
            with gzip.open(path, "rb") as f:
                return f.read()
        except Exception as e:  # noqa - the library wrote through / around the stream object it was given
            raise env.LibraryFault("gzip-sink-corrupted", f"a {type(block).__name__} was written into a gzip stream; the stream cannot be read back afterwards "
                                                          f"({type(e).__name__}: {e})")
    finally:
        env.rmdir(d)


DECODE_HEADS = (b"", b"\xa5" * 7, b"\x5a" * 4096, b"")


def lib_decode(t, fmt, data, tail=b"", head=None):
    """decode with the library from a stream that carries `head` before and `tail` after the block (a block is never
    at position 0 of a real file); returns (block, bytes consumed). See consume() for the streams."""
    return consume(lambda st_: lib_class(t)._build(st_, fmt), data, tail, head)


def consume(build, data, tail=b"", head=None):
    """hand `data` (+ tail) to build(stream) -> (object, bytes consumed). As a pure function of the bytes the stream is: a BytesIO with 0,
    7 or 4096 other bytes in front; a real file; a gzip stream (its fileno() is the compressed file's); and the call is made in the
    calling thread or in a worker thread."""
    import io
    import zlib

    data = bytes(data)
    crc = zlib.crc32(data)
    if head is None:
        head = DECODE_HEADS[crc % len(DECODE_HEADS)]
    kind = (crc >> 8) % 8
    if kind in (5, 7) and len(data) < 2_000_000:
        from . import env

        d = env.fresh_dir()
        try:
            path = os.path.join(d, "r.bin")
            if kind == 5:
                with open(path, "wb") as f:
                    f.write(head + data + bytes(tail))
                with open(path, "rb") as f:
                    f.seek(len(head))
                    obj = build(f)
                    return obj, f.tell() - len(head)
            import gzip

            with gzip.open(path, "wb") as f:
                f.write(head + data + bytes(tail))
            with gzip.open(path, "rb") as f:
                f.seek(len(head))
                obj = build(f)
                return obj, f.tell() - len(head)
        finally:
            env.rmdir(d)
    st_ = io.BytesIO(head + data + bytes(tail))
    st_.seek(len(head))
    if kind == 3:
        import threading

        box = {}

        def work():
            try:
                box["obj"] = build(st_)
            except BaseException as e:  # noqa
                box["e"] = e

        th = threading.Thread(target=work)
        th.start()
        th.join()
        if "e" in box:
            raise box["e"]
        used = st_.tell() - len(head)
        _release(st_)
        return box["obj"], used
    obj = build(st_)
    used = st_.tell() - len(head)
    _release(st_)
    return obj, used


def _release(st_):
    """the stream a block was decoded from is the caller's: it overwrites the buffer in place and closes it. A decoder that handed out
    views into the stream's buffer makes the first change the decoded block and the second fail."""
    from . import env

    try:
        mv = st_.getbuffer()
        mv[:] = b"\xee" * len(mv)
        del mv
    except Exception:  # noqa
        pass
    try:
        st_.close()
    except BufferError as e:
        raise env.LibraryFault("stream-still-referenced", f"the BytesIO a block was decoded from cannot be closed afterwards: {e} (the decoded block keeps views into the stream's buffer)")


def invalid_variant(spec):
    """the same block with one label that cannot be encoded (too long), or None if the type carries no text"""
    import copy

    s2 = copy.deepcopy(spec)
    for key in ("tracks", "signals", "events", "plats", "channels"):
        its = s2.get(key)
        if its:
            it = its[len(its) // 2]
            for lk in ("label", "name"):
                if lk in it:
                    it[lk] = "x" * 300
                    return s2
    return None


def first_diff(a, b, path=""):
    """path of the first difference between two canonical specs (for messages and keys)"""
    if isinstance(a, str) and isinstance(b, str):
        # texts are compared by content, whatever str type carries them (str.__str__ gives the plain content of a subclass instance)
        return None if str.__str__(a) == str.__str__(b) else (path or "/", str.__str__(a), str.__str__(b))
    if type(a) != type(b) and not (isinstance(a, (int, float)) and isinstance(b, (int, float))):
        return path or "/", a, b
    if isinstance(a, dict):
        for k in sorted(set(a) | set(b)):
            if k not in a or k not in b:
                return f"{path}/{k}", a.get(k, "<absent>"), b.get(k, "<absent>")
            d = first_diff(a[k], b[k], f"{path}/{k}")
            if d:
                return d
        return None
    if isinstance(a, list):
        if len(a) != len(b):
            return f"{path}/len", len(a), len(b)
        for i, (x, y) in enumerate(zip(a, b)):
            d = first_diff(x, y, f"{path}/{i}")
            if d:
                return d
        return None
    return None if a == b else (path or "/", a, b)


def diff_class(path):
    """strip indices from a diff path: /tracks/3/frames/7 -> tracks.frames"""
    return ".".join(p for p in path.split("/") if p and not p.isdigit()) or "root"
