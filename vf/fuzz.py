"""Coverage-guided tier (thorough): Atheris / libFuzzer with the library's functions
instrumented for coverage.  Runs in a child process because atheris.Fuzz() ends the
process; results travel through files.

  python -m vf.fuzz <PROP> <SUB> <runs> <seed> <outdir> <corpus: empty|seeded>

Two kinds of target, chosen by the sub-check's ``fuzz_target``:

  ("hypothesis", subname)   the Hypothesis test of that sub-check driven through
                            test.hypothesis.fuzz_one_input (only useful for strategies simple
                            enough that random bytes decode to a valid example: C13)
  ("spec", t, adapter)      bytes -> block spec through the reference decoder (the structured
                            argument layer): byte 0 selects the format, the rest is decoded by
                            reftdf; inputs that are not layout-conformant or outside the
                            properties' domain (non-finite samples, duplicate channels, ...) are
                            dropped; the spec is handed to the same oracle function the
                            Hypothesis tier uses.
"""
import json
import os
import struct
import sys
import time

MAX_FRAMES, MAX_ITEMS = 512, 24


def instrument_package(atheris, prefix):
    """atheris.instrument_imports has no effect for this package under Python 3.12 (coverage stays
    at 2 edges); patch the bytecode of every function and method of the imported modules instead"""
    import inspect
    import types

    count = 0
    for name, mod in list(sys.modules.items()):
        if not (name == prefix or name.startswith(prefix + ".")) or mod is None:
            continue

        def patch(obj):
            nonlocal count
            fs = []
            if isinstance(obj, types.FunctionType):
                fs = [obj]
            elif isinstance(obj, (staticmethod, classmethod)):
                fs = [obj.__func__]
            elif isinstance(obj, property):
                fs = [getattr(f, "__wrapped__", f) for f in (obj.fget, obj.fset) if f is not None]
            for f in fs:
                f = getattr(f, "__wrapped__", f)
                try:
                    if isinstance(f, types.FunctionType) and (f.__module__ or "").startswith(prefix) and not getattr(f, "_vf_instr", False):
                        atheris.instrument_func(f)
                        f._vf_instr = True
                        count += 1
                except Exception:  # noqa - best effort
                    pass

        for _, obj in list(vars(mod).items()):
            if inspect.isclass(obj) and getattr(obj, "__module__", "").startswith(prefix):
                for _, o2 in list(vars(obj).items()):
                    patch(o2)
            else:
                patch(obj)
    return count


# ---------------------------------------------------------------------------------------
def finite32(b):
    return (b >> 23) & 0xFF != 0xFF


def finite64(b):
    return (b >> 52) & 0x7FF != 0x7FF


def in_domain(spec, segs):
    """is this reference-decoded spec a *valid block* in the sense of the properties' quantifiers?"""
    from . import codec, specs

    t = spec["t"]
    n = specs.n_items(spec)
    if n > MAX_ITEMS:
        return False
    for sg in segs:  # run tables must be the maximal-run decomposition (increasing, non-touching, non-empty)
        prev = None
        for s, L in sg:
            if L <= 0 or (prev is not None and s <= prev):
                return False
            prev = s + L
    for it in codec.items(spec) or []:
        for key, width in (("label", 256), ("lens", 32), ("type", 32), ("name", 32)):
            if isinstance(it.get(key), str) and len(it[key]) > width - 1:
                return False  # field without NUL terminator: not a conformant fixed-width string
    if t in specs.RLE_TYPES:
        nf = spec["nSamples" if t == "emg" else "nFrames"]
        if nf < 1 or (n and nf > MAX_FRAMES):
            return False
        for it in codec.items(spec):
            for f in it["frames"]:
                if f is None:
                    continue
                if not all(finite32(x) for x in ([f] if isinstance(f, int) else f)):
                    return False
    def fin(*lists):
        return all(finite32(x) for l in lists for x in l)
    if t in ("data3D", "force3D"):
        if not fin(spec["volume"], spec["rot"], spec["trans"], [spec["startTime"]]):
            return False
    if t == "data3D" and spec["flag"] not in (0, 1):
        return False
    if t in ("emg", "platData"):
        if not finite32(spec["startTime"]):
            return False
        ch = [x["channel"] for x in codec.items(spec)]
        if len(set(ch)) != len(ch):
            return False
    if t == "platCal":
        ch = [x["channel"] for x in spec["plats"]]
        if len(set(ch)) != len(ch) or not all(fin(p["size"], p["position"]) for p in spec["plats"]):
            return False
    if t == "data2D":
        if not (0 <= spec["nCams"] <= 8 and 1 <= spec["nFrames"] <= 64) or spec["flags"] not in (0, 1) or not finite32(spec["startTime"]):
            return False
        if any(c > 32767 for c in spec["camMap"]):
            return False
        for row in spec["cells"]:
            for c in row:
                if c and (len(c) > 64 or not all(finite32(x) for pt in c for x in pt)):
                    return False
    if t == "calib":
        if spec["model"] not in (0, 1, 2, 3) or not fin(spec["volume"], spec["rot"], spec["trans"]):
            return False
        for c in spec["cams"]:
            for k, v in c.items():
                if k != "vp" and not all(finite64(x) for x in v):
                    return False
    if t == "events":
        if not finite32(spec["startTime"]):
            return False
        for e in spec["events"]:
            if e["type"] not in (0, 1) or (e["type"] == 0 and len(e["values"]) > 1) or len(e["values"]) > 256 or not fin(e["values"]):
                return False
    return True


def cheap_limits(t, fmt, data):
    """reject inputs whose count fields would make the reference decoder allocate a lot, before decoding"""
    if len(data) < 8:
        return False
    a, b = struct.unpack_from("<ii", data, 0)
    if t == "data3D":
        if len(data) < 16:
            return False
        nt = struct.unpack_from("<I", data, 12)[0]
        return nt <= MAX_ITEMS and (nt == 0 or 1 <= a <= MAX_FRAMES)
    if t == "emg":
        if len(data) < 16:
            return False
        ns = struct.unpack_from("<i", data, 12)[0] + 49
        return 0 <= a <= MAX_ITEMS and (a == 0 or 1 <= ns <= MAX_FRAMES)
    if t in ("force3D", "platData"):
        if len(data) < 16:
            return False
        nf = struct.unpack_from("<i", data, 12)[0]
        return 0 <= a <= MAX_ITEMS and (a == 0 or 1 <= nf <= MAX_FRAMES)
    if t == "data2D":
        return 0 <= a <= 8 and 1 <= b <= 64
    return 0 <= a <= MAX_ITEMS


FORMATS = {"data3D": (1, 2), "emg": (1,), "force3D": (1,), "platData": (1,), "platCal": (2,), "data2D": (2,), "calib": (1, 2), "optical": (1,), "events": (1,)}


def make_seed_corpus(t, corpus, seed, n=24):
    """small valid inputs: reference encodings of Hypothesis-generated specs"""
    from hypothesis import HealthCheck, Phase, given
    from hypothesis import seed as hseed
    from hypothesis import settings

    from . import reftdf, specs

    out = []

    @hseed(seed)
    @settings(max_examples=n, database=None, deadline=None, suppress_health_check=list(HealthCheck), phases=(Phase.generate,))
    @given(specs.SPEC[t]("quick"))
    def collect(spec):
        out.append(spec)

    collect()
    for i, spec in enumerate(out):
        fmts = FORMATS[t]
        sel = fmts.index(spec["format"])
        with open(os.path.join(corpus, f"seed-{i:03d}"), "wb") as f:
            f.write(bytes([sel]) + reftdf.encode(spec) + bytes([i, 7, 255, 1]))
    return len(out)


def main():
    prop, subname, runs, seed, outdir, corpus_mode = sys.argv[1], sys.argv[2], int(sys.argv[3]), int(sys.argv[4]), sys.argv[5], sys.argv[6]
    import atheris

    from . import core, env, reftdf, registry, specs

    env.import_library()
    n_instr = instrument_package(atheris, "basictdf")
    sub = registry.get_sub(prop, subname)
    kind = sub.fuzz_target[0]
    known = set(json.load(open(os.path.join(outdir, "known.json"))))
    ctx = core.Ctx(prop, subname, "thorough", seed, known=known)
    ctx.notes.append(f"{n_instr} library functions instrumented for coverage; corpus: {corpus_mode}")
    state = {"n": 0, "dropped": 0, "t0": time.time(), "last": 0.0}

    def dump():
        r = ctx.result()
        r["nontrivial"] = sorted(r["nontrivial"])
        r["execs"] = state["n"]
        r["dropped"] = state["dropped"]
        r["wall_s"] = round(time.time() - state["t0"], 1)
        with open(os.path.join(outdir, "stats.json.tmp"), "w") as f:
            f.write(core.jdump(r))
        os.replace(os.path.join(outdir, "stats.json.tmp"), os.path.join(outdir, "stats.json"))

    def run_case(case):
        ctx.current = case
        try:
            core.safe_run(ctx, sub, case)
        except core.Violation as v:
            ctx.violations.append({"key": v.key, "what": v.what, "detail": v.detail, "case": case})
            dump()
            raise
        if time.time() - state["last"] > 2.0:
            state["last"] = time.time()
            dump()

    corpus = os.path.join(outdir, "corpus")
    os.makedirs(corpus, exist_ok=True)
    if kind == "hypothesis":
        from hypothesis import HealthCheck, given, settings

        target_sub = registry.get_sub(prop, sub.fuzz_target[1])

        @settings(database=None, deadline=None, suppress_health_check=list(HealthCheck), max_examples=10 ** 9)
        @given(target_sub.strategy("quick"))
        def test(case):
            state["n"] += 1
            run_case(case)

        entry = test.hypothesis.fuzz_one_input
    else:
        _, t, adapter = sub.fuzz_target
        fmts = FORMATS[t]
        if corpus_mode == "seeded":
            make_seed_corpus(t, corpus, seed)

        def entry(data):
            state["n"] += 1
            if len(data) < 2:
                return
            fmt = fmts[data[0] % len(fmts)]
            body = bytes(data[1:])
            if not cheap_limits(t, fmt, body):
                state["dropped"] += 1
                return
            try:
                spec, used, spans, segs = reftdf.decode(t, fmt, body)
            except (reftdf.RefError, struct.error):
                state["dropped"] += 1
                return
            if not in_domain(spec, segs):
                state["dropped"] += 1
                return
            tail = body[used:used + 8]
            run_case(adapter(spec, body[:used], tail))

    raw_entry = entry

    def entry(data):  # noqa
        try:
            return raw_entry(data)
        except core.Violation:
            raise
        except BaseException as e:  # harness problem inside the child: leave a trace for the parent
            import traceback

            with open(os.path.join(outdir, "harness-error.txt"), "w") as f:
                f.write("".join(traceback.format_exception(type(e), e, e.__traceback__)))
                f.write("\ninput hex: " + bytes(data).hex()[:4000])
            raise

    argv = [sys.argv[0], f"-runs={runs}", f"-seed={seed % (2 ** 31) or 1}", "-max_len=6000", "-len_control=0", "-print_final_stats=1", "-verbosity=1",
            f"-artifact_prefix={outdir}/", corpus]
    atheris.Setup(argv, entry)
    dump()
    atheris.Fuzz()


if __name__ == "__main__":
    main()
