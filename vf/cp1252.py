"""Windows-1252, written out as a table (independent of Python's codec registry so that a
switch of codec name in the library - latin-1, utf-8, cp1250 - is caught)."""

_HIGH = {
    0x80: 0x20AC, 0x82: 0x201A, 0x83: 0x0192, 0x84: 0x201E, 0x85: 0x2026, 0x86: 0x2020,
    0x87: 0x2021, 0x88: 0x02C6, 0x89: 0x2030, 0x8A: 0x0160, 0x8B: 0x2039, 0x8C: 0x0152,
    0x8E: 0x017D, 0x91: 0x2018, 0x92: 0x2019, 0x93: 0x201C, 0x94: 0x201D, 0x95: 0x2022,
    0x96: 0x2013, 0x97: 0x2014, 0x98: 0x02DC, 0x99: 0x2122, 0x9A: 0x0161, 0x9B: 0x203A,
    0x9C: 0x0153, 0x9E: 0x017E, 0x9F: 0x0178,
}
UNDEFINED_BYTES = (0x81, 0x8D, 0x8F, 0x90, 0x9D)

BYTE_TO_CP = {}
for _b in range(256):
    if _b < 0x80 or _b >= 0xA0:
        BYTE_TO_CP[_b] = _b
    elif _b in _HIGH:
        BYTE_TO_CP[_b] = _HIGH[_b]
CP_TO_BYTE = {cp: b for b, cp in BYTE_TO_CP.items()}
assert len(BYTE_TO_CP) == 251 and len(CP_TO_BYTE) == 251

# every character that can be stored (NUL excluded: it is the terminator)
ENCODABLE_CPS = sorted(cp for cp in CP_TO_BYTE if cp != 0)
ENCODABLE_CHARS = "".join(chr(c) for c in ENCODABLE_CPS)
HIGH_CHARS = "".join(chr(c) for c in sorted(_HIGH.values()))
LATIN1_CHARS = "".join(chr(c) for c in range(0xA0, 0x100))


def encodable(s):
    return all(ord(ch) in CP_TO_BYTE for ch in s)


def encode(s):
    """bytes of s in cp1252; KeyError if not encodable"""
    return bytes(CP_TO_BYTE[ord(ch)] for ch in s)


def decode(b):
    """str for bytes b; KeyError if a byte is undefined in cp1252"""
    return "".join(chr(BYTE_TO_CP[x]) for x in b)


def field(s, width):
    """the canonical fixed-width field for s (caller guarantees it fits)"""
    e = encode(s)
    assert len(e) <= width - 1 and 0 not in e
    return e + b"\x00" * (width - len(e))


def read_field(b):
    """(text before first NUL, has_undefined_byte)"""
    cut = b.split(b"\x00", 1)[0]
    undefined = any(x in UNDEFINED_BYTES for x in cut)
    if undefined:
        return None, True
    return decode(cut), False
