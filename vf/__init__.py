"""Property-based-testing / fuzzing machinery for marnunez/basictdf (see /verif/DESIGN.md)."""
