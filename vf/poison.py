"""Control over 'process memory state' for decoders (C05, C01).

numpy.empty's contract is "contents arbitrary".  While a decode runs under `poisoned(b)`
every array obtained from numpy.empty is filled with byte b first, so a decoder that
forgets to pre-fill gap frames exposes a deterministic finite value instead of whatever
the allocator happened to return.  A correct decoder is unaffected.
"""
import contextlib

import numpy as np

_real_empty = np.empty
# bytes whose 4-fold repetition is a finite, non-zero float32 (0x41414141 = 12.07..., ...)
POISON_BYTES = (0x41, 0x3E, 0xC2, 0x01)


def _make(byte):
    def empty(*a, **k):
        arr = _real_empty(*a, **k)
        try:
            if arr.dtype.hasobject or arr.size == 0:
                return arr
            arr.view(np.uint8).reshape(-1)[:] = byte
        except Exception:
            try:
                flat = np.frombuffer(arr.data, dtype=np.uint8)
                flat.flags.writeable and flat.fill(byte)
            except Exception:
                pass
        return arr

    return empty


@contextlib.contextmanager
def poisoned(byte=0x41):
    np.empty = _make(byte)
    try:
        yield
    finally:
        np.empty = _real_empty
