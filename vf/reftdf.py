"""reftdf - an independent, layout-driven reference codec for the TDF container and the
nine writable block types.

Written with ``struct`` only: no numpy, no import of basictdf.  Floats are carried as
their on-disk bit patterns (u32 for f32, u64 for f64) so that comparison is bit-exact.
Every byte produced or consumed is classified:

  content      a field that carries information
  reserved     reserved / padding words the format leaves undefined
  pad256       the undocumented 256-byte pad of platform calibration records
  string-tail  bytes after the first NUL of a fixed-width string

The class map is the don't-care mask of C12 and the "every byte accounted for" oracle
of C06.  Layout provenance: transcribed from the pinned commit and validated against the
BTS-recorded capture in tests/test_files (see DESIGN.md 2.2).
"""
import struct

from . import cp1252

SIGNATURE = bytes.fromhex("824b6041d31184ca6000b6ac16680c08")
HEADER_SIZE = 64
ENTRY_SIZE = 288
DONTCARE = ("reserved", "pad256", "string-tail")

# block type codes
T_UNUSED, T_CALIB, T_DATA2D, T_DATA3D, T_OPTICAL, T_PLATCAL, T_PLATDATA, T_EMG, T_FORCE3D, T_EVENTS = 0, 2, 4, 5, 6, 7, 9, 11, 12, 16
TYPE_CODE = {"calib": T_CALIB, "data2D": T_DATA2D, "data3D": T_DATA3D, "optical": T_OPTICAL, "platCal": T_PLATCAL,
             "platData": T_PLATDATA, "emg": T_EMG, "force3D": T_FORCE3D, "events": T_EVENTS}
CODE_TYPE = {v: k for k, v in TYPE_CODE.items()}
EMG_BIAS = 49


class RefError(Exception):
    pass


# the documented block type codes (TDF_DATABLOCK_* constants of the format description) under the names the library's public enum
# gives them: the reference's own table, so that an exchange of two codes inside the library is not invisible
TYPE_NAMES = {0: "unusedSlot", 1: "notDefined", 2: "calibrationData", 3: "calibrationData2D", 4: "data2D", 5: "data3D",
              6: "opticalSystemConfiguration", 7: "forcePlatformsCalibrationData", 8: "forcePlatformsCalibrationData2D",
              9: "forcePlatformsData", 10: "anthropometricData", 11: "electromyographicData", 12: "forceAndTorqueData",
              13: "volumetricData", 14: "analogData", 15: "generalCalibrationData", 16: "temporalEventsData"}


class Enc:
    def __init__(self, dc=None, seg_variant=None):
        self.buf = bytearray()
        self.spans = []  # (start, end, class)
        self.dc = dc
        self.seg_variant = seg_variant   # None = the canonical run table; else a layout-conformant non-canonical one (see vary_runs)

    def _add(self, b, cls):
        if cls != "content" or (self.spans and self.spans[-1][2] != "content") or not self.spans:
            self.spans.append((len(self.buf), len(self.buf) + len(b), cls))
        else:
            s, e, c = self.spans[-1]
            self.spans[-1] = (s, e + len(b), c)
        self.buf += b

    def raw(self, b):
        self._add(bytes(b), "content")

    def i32(self, *v):
        self._add(struct.pack("<%di" % len(v), *v), "content")

    def u32(self, *v):
        self._add(struct.pack("<%dI" % len(v), *v), "content")

    def i16(self, *v):
        self._add(struct.pack("<%dh" % len(v), *v), "content")

    def u16(self, *v):
        self._add(struct.pack("<%dH" % len(v), *v), "content")

    f32 = u32  # floats travel as bit patterns

    def f64(self, *v):
        self._add(struct.pack("<%dQ" % len(v), *v), "content")

    def pad(self, n, cls="reserved"):
        b = self.dc(cls, n) if self.dc else b"\x00" * n
        assert len(b) == n
        self._add(b, cls)

    def string(self, s, width):
        e = cp1252.encode(s)
        if len(e) > width - 1 or 0 in e:
            raise RefError("string does not fit")
        self._add(e + b"\x00", "content")
        if width - len(e) - 1:
            self.pad(width - len(e) - 1, "string-tail")


class Dec:
    def __init__(self, data, pos=0):
        self.data = data
        self.pos = pos
        self.spans = []

    def _take(self, n, cls="content"):
        if n < 0 or self.pos + n > len(self.data):
            raise RefError(f"truncated: need {n} bytes at {self.pos}, have {len(self.data) - self.pos}")
        b = self.data[self.pos:self.pos + n]
        self.spans.append((self.pos, self.pos + n, cls))
        self.pos += n
        return b

    def _n(self, fmt, size, n):
        return struct.unpack("<%d%s" % (n, fmt), self._take(size * n))

    def i32(self, n=None):
        return self._n("i", 4, 1)[0] if n is None else list(self._n("i", 4, n))

    def u32(self, n=None):
        return self._n("I", 4, 1)[0] if n is None else list(self._n("I", 4, n))

    def i16(self, n=None):
        return self._n("h", 2, 1)[0] if n is None else list(self._n("h", 2, n))

    def u16(self, n=None):
        return self._n("H", 2, 1)[0] if n is None else list(self._n("H", 2, n))

    f32 = u32

    def f64(self, n=None):
        return self._n("Q", 8, 1)[0] if n is None else list(self._n("Q", 8, n))

    def skip(self, n, cls="reserved"):
        return self._take(n, cls)

    def string(self, width):
        start = self.pos
        b = self._take(width)
        self.spans.pop()
        cut = b.find(b"\x00")
        if cut < 0:
            self.spans.append((start, start + width, "content"))
            text = b
        else:
            self.spans.append((start, start + cut + 1, "content"))
            if width - cut - 1:
                self.spans.append((start + cut + 1, start + width, "string-tail"))
            text = b[:cut]
        try:
            return cp1252.decode(text)
        except KeyError:
            raise RefError("undefined cp1252 byte in string")


# ---------------------------------------------------------------------------------------
# run-length helpers
def runs_of(frames):
    """maximal runs [(start, length)] of present (non-None) frames"""
    out, start = [], None
    for i, f in enumerate(frames):
        if f is not None and start is None:
            start = i
        if f is None and start is not None:
            out.append((start, i - start))
            start = None
    if start is not None:
        out.append((start, len(frames) - start))
    return out


def vary_runs(runs, variant):
    """other run tables that describe the same present frames: rows in another order and / or maximal runs cut into touching
    pieces. Row i of the table owns the i-th chunk of samples, so any order is layout-conformant; overlaps are never produced."""
    if not variant or variant == "canonical":
        return list(runs)
    out = list(runs)
    if "split" in variant:
        cut = []
        for s, n in out:
            if n >= 2:
                k = max(1, n // 2)
                cut += [(s, k), (s + k, n - k)]
            else:
                cut.append((s, n))
        out = cut
    if "reversed" in variant:
        out = out[::-1]
    if "rotated" in variant and len(out) > 1:
        out = out[1:] + out[:1]
    if "swapped" in variant and len(out) > 1:
        out[0], out[-1] = out[-1], out[0]
    return out


def _enc_rle(e, frames, per_frame):
    runs = vary_runs(runs_of(frames), getattr(e, "seg_variant", None))
    e.i32(len(runs))
    e.pad(4)
    for s, n in runs:
        e.i32(s, n)
    for s, n in runs:
        flat = []
        for f in frames[s:s + n]:
            if per_frame == 1:
                flat.append(f)
            else:
                assert len(f) == per_frame
                flat.extend(f)
        e.f32(*flat)


def _dec_rle(d, nframes, per_frame, segments_out=None):
    nseg = d.i32()
    d.skip(4)
    if nseg < 0:
        raise RefError("negative segment count")
    segs = [tuple(d.i32(2)) for _ in range(nseg)]
    frames = [None] * nframes
    for s, n in segs:
        if s < 0 or n < 0 or s + n > nframes:
            raise RefError(f"segment ({s},{n}) outside 0..{nframes}")
        vals = d.f32(n * per_frame)
        for k in range(n):
            frames[s + k] = vals[k] if per_frame == 1 else vals[k * per_frame:(k + 1) * per_frame]
    if segments_out is not None:
        segments_out.append(segs)
    return frames


# ---------------------------------------------------------------------------------------
# block encoders / decoders. Every decoder returns the canonical spec.
def enc_data3D(e, s):
    e.i32(s["nFrames"], s["frequency"])
    e.f32(s["startTime"])
    e.u32(len(s["tracks"]))
    e.f32(*s["volume"])
    e.f32(*s["rot"])
    e.f32(*s["trans"])
    e.u32(s["flag"])
    if s["format"] in (1, 3):
        links = s.get("links") or []
        e.i32(len(links))
        e.pad(4)
        for a, b in links:
            e.u32(a, b)
    for t in s["tracks"]:
        e.string(t["label"], 256)
        _enc_rle(e, t["frames"], 3)


def _count(n, what):
    if n < 0:
        raise RefError(f"negative {what} count {n}")
    return n


def dec_data3D(d, fmt, segs=None):
    if fmt not in (1, 2):
        raise RefError("format")
    s = {"t": "data3D", "format": fmt}
    s["nFrames"], s["frequency"] = d.i32(2)
    s["startTime"] = d.f32()
    nt = d.u32()
    s["volume"], s["rot"], s["trans"] = d.f32(3), d.f32(9), d.f32(3)
    s["flag"] = d.u32()
    if fmt == 1:
        nl = d.i32()
        d.skip(4)
        _count(nl, "link")
        s["links"] = [d.u32(2) for _ in range(nl)]
    else:
        s["links"] = None
    s["tracks"] = []
    for _ in range(nt):
        lab = d.string(256)
        s["tracks"].append({"label": lab, "frames": _dec_rle(d, s["nFrames"], 3, segs)})
    return s


def enc_emg(e, s):
    e.i32(len(s["signals"]), s["frequency"])
    e.f32(s["startTime"])
    e.i32(s["nSamples"] - EMG_BIAS)
    e.i16(*[g["channel"] for g in s["signals"]])
    for g in s["signals"]:
        e.string(g["label"], 256)
        _enc_rle(e, g["frames"], 1)


def dec_emg(d, fmt, segs=None):
    if fmt != 1:
        raise RefError("format")
    s = {"t": "emg", "format": 1}
    n, s["frequency"] = d.i32(2)
    _count(n, "signal")
    s["startTime"] = d.f32()
    s["nSamples"] = d.i32() + EMG_BIAS
    ch = d.i16(n)
    s["signals"] = []
    for k in range(n):
        lab = d.string(256)
        s["signals"].append({"label": lab, "channel": ch[k], "frames": _dec_rle(d, s["nSamples"], 1, segs)})
    return s


def enc_force3D(e, s):
    e.i32(len(s["tracks"]), s["frequency"])
    e.f32(s["startTime"])
    e.i32(s["nFrames"])
    e.f32(*s["volume"])
    e.f32(*s["rot"])
    e.f32(*s["trans"])
    e.pad(4)
    for t in s["tracks"]:
        e.string(t["label"], 256)
        _enc_rle(e, t["frames"], 9)


def dec_force3D(d, fmt, segs=None):
    if fmt != 1:
        raise RefError("format")
    s = {"t": "force3D", "format": 1}
    n, s["frequency"] = d.i32(2)
    _count(n, "track")
    s["startTime"] = d.f32()
    s["nFrames"] = d.i32()
    s["volume"], s["rot"], s["trans"] = d.f32(3), d.f32(9), d.f32(3)
    d.skip(4)
    s["tracks"] = []
    for _ in range(n):
        lab = d.string(256)
        s["tracks"].append({"label": lab, "frames": _dec_rle(d, s["nFrames"], 9, segs)})
    return s


def enc_platData(e, s):
    e.i32(len(s["plats"]), s["frequency"])
    e.f32(s["startTime"])
    e.i32(s["nFrames"])
    e.u16(*[p["channel"] for p in s["plats"]])
    for p in s["plats"]:
        _enc_rle(e, p["frames"], 6)


def dec_platData(d, fmt, segs=None):
    if fmt != 1:
        raise RefError("format")
    s = {"t": "platData", "format": 1}
    n, s["frequency"] = d.i32(2)
    _count(n, "platform")
    s["startTime"] = d.f32()
    s["nFrames"] = d.i32()
    ch = d.u16(n)
    s["plats"] = [{"channel": ch[k], "frames": _dec_rle(d, s["nFrames"], 6, segs)} for k in range(n)]
    return s


def enc_platCal(e, s):
    e.i32(len(s["plats"]))
    e.pad(4)
    e.i16(*[p["channel"] for p in s["plats"]])
    for p in s["plats"]:
        e.string(p["label"], 256)
        e.f32(*p["size"])
        e.f32(*p["position"])
        e.pad(256, "pad256")


def dec_platCal(d, fmt, segs=None):
    if fmt != 2:
        raise RefError("format")
    n = _count(d.i32(), "platform")
    d.skip(4)
    ch = d.i16(n)
    plats = []
    for k in range(n):
        lab = d.string(256)
        size, pos = d.f32(2), d.f32(12)
        d.skip(256, "pad256")
        plats.append({"channel": ch[k], "label": lab, "size": size, "position": pos})
    return {"t": "platCal", "format": 2, "plats": plats}


def enc_data2D(e, s):
    e.i32(s["nCams"], s["nFrames"], s["frequency"])
    e.f32(s["startTime"])
    e.u32(s["flags"])
    e.i16(*s["camMap"])
    cells = s["cells"]  # [frame][cam] -> None | [[x,y],...]
    counts = [len(cells[f][c] or ()) for c in range(s["nCams"]) for f in range(s["nFrames"])]
    e.u16(*counts)
    for f in range(s["nFrames"]):
        for c in range(s["nCams"]):
            for pt in cells[f][c] or ():
                e.f32(*pt)


def dec_data2D(d, fmt, segs=None):
    if fmt != 2:
        raise RefError("format")
    s = {"t": "data2D", "format": 2}
    s["nCams"], s["nFrames"], s["frequency"] = d.i32(3)
    s["startTime"] = d.f32()
    s["flags"] = d.u32()
    nc, nf = s["nCams"], s["nFrames"]
    if nc < 0 or nf < 0:
        raise RefError("negative count")
    s["camMap"] = d.u16(nc)
    counts = d.u16(nc * nf)
    cells = [[None] * nc for _ in range(nf)]
    for f in range(nf):
        for c in range(nc):
            k = counts[c * nf + f]
            if k:
                v = d.f32(2 * k)
                cells[f][c] = [v[2 * i:2 * i + 2] for i in range(k)]
    s["cells"] = cells
    return s


def enc_calib(e, s):
    e.i32(len(s["cams"]), s["model"])
    e.f32(*s["volume"])
    e.f32(*s["rot"])
    e.f32(*s["trans"])
    e.i16(*s["map"])
    for c in s["cams"]:
        e.f64(*c["rot"])
        e.f64(*c["trans"])
        e.f64(*c["focus"])
        e.f64(*c["center"])
        if s["format"] == 1:
            e.f64(*c["radial"])
            e.f64(*c["decentering"])
            e.f64(*c["prism"])
        else:
            assert len(c["xd"]) == 70 and len(c["yd"]) == 70
            e.f64(*c["xd"])
            e.f64(*c["yd"])
        e.i32(*c["vp"])


def dec_calib(d, fmt, segs=None):
    if fmt not in (1, 2):
        raise RefError("format")
    s = {"t": "calib", "format": fmt}
    n, s["model"] = d.i32(2)
    _count(n, "camera")
    s["volume"], s["rot"], s["trans"] = d.f32(3), d.f32(9), d.f32(3)
    s["map"] = d.i16(n)
    cams = []
    for _ in range(n):
        c = {"rot": d.f64(9), "trans": d.f64(3), "focus": d.f64(2), "center": d.f64(2)}
        if fmt == 1:
            c["radial"], c["decentering"], c["prism"] = d.f64(2), d.f64(2), d.f64(2)
        else:
            c["xd"], c["yd"] = d.f64(70), d.f64(70)
        c["vp"] = d.i32(4)
        cams.append(c)
    s["cams"] = cams
    return s


def enc_optical(e, s):
    e.i32(len(s["channels"]))
    e.pad(4)
    for c in s["channels"]:
        e.i32(c["index"])
        e.pad(4)
        e.string(c["lens"], 32)
        e.string(c["type"], 32)
        e.string(c["name"], 32)
        e.i32(*c["vp"])


def dec_optical(d, fmt, segs=None):
    n = _count(d.i32(), "channel")
    d.skip(4)
    chans = []
    for _ in range(n):
        idx = d.i32()
        d.skip(4)
        chans.append({"index": idx, "lens": d.string(32), "type": d.string(32), "name": d.string(32), "vp": d.i32(4)})
    return {"t": "optical", "format": fmt, "channels": chans}


def enc_events(e, s):
    e.i32(len(s["events"]))
    e.f32(s["startTime"])
    for ev in s["events"]:
        e.string(ev["label"], 256)
        e.u32(ev["type"], len(ev["values"]))
        e.f32(*ev["values"])


def dec_events(d, fmt, segs=None):
    n = _count(d.i32(), "event")
    st_ = d.f32()
    evs = []
    for _ in range(n):
        lab = d.string(256)
        typ, k = d.u32(), d.i32()
        if k < 0:
            raise RefError("negative item count")
        evs.append({"label": lab, "type": typ, "values": d.f32(k)})
    return {"t": "events", "format": fmt, "startTime": st_, "events": evs}


ENCODERS = {"data3D": enc_data3D, "emg": enc_emg, "force3D": enc_force3D, "platData": enc_platData,
            "platCal": enc_platCal, "data2D": enc_data2D, "calib": enc_calib, "optical": enc_optical, "events": enc_events}
DECODERS = {"data3D": dec_data3D, "emg": dec_emg, "force3D": dec_force3D, "platData": dec_platData,
            "platCal": dec_platCal, "data2D": dec_data2D, "calib": dec_calib, "optical": dec_optical, "events": dec_events}


def encode(spec, dc=None, with_spans=False, seg_variant=None):
    e = Enc(dc, seg_variant)
    ENCODERS[spec["t"]](e, spec)
    return (bytes(e.buf), e.spans) if with_spans else bytes(e.buf)


def decode(t, fmt, data, pos=0):
    """-> (canonical spec, bytes consumed, spans, segment tables)"""
    d = Dec(data, pos)
    segs = []
    spec = DECODERS[t](d, fmt, segs)
    return spec, d.pos - pos, d.spans, segs


def dontcare_positions(spans):
    out = []
    for s, e, c in spans:
        if c in DONTCARE:
            out.extend((i, c) for i in range(s, e))
    return out


def coverage_gaps(spans, start, end):
    """byte ranges in [start,end) not covered exactly once by spans"""
    pos, gaps = start, []
    for s, e, _ in sorted(spans):
        if s != pos:
            gaps.append((pos, s))
        pos = e
    if pos != end:
        gaps.append((pos, end))
    return gaps


# ---------------------------------------------------------------------------------------
# container
def enc_header(e, h):
    e.raw(h.get("signature", SIGNATURE))
    e.u32(h["version"])
    e.i32(h["nEntries"])
    e.pad(8)
    e.i32(*h["dates"])
    e.pad(20)


def enc_entry(e, en):
    e.u32(en["type"], en["format"])
    e.i32(en["offset"], en["size"], en["cdate"], en["mdate"], en["adate"])
    e.pad(4)
    e.string(en["comment"], 256)


def encode_entry(en, dc=None):
    e = Enc(dc)
    enc_entry(e, en)
    return bytes(e.buf)


def encode_header(h, dc=None):
    e = Enc(dc)
    enc_header(e, h)
    return bytes(e.buf)


def build_image(n_entries, blocks, dc=None, version=1, dates=(0, 0, 0), free_comment="", free_dates=(0, 0, 0),
                with_spans=False, gaps=None, free_offsets=None, holes_before=None):
    """A compact, well-formed file image: live blocks in table order, free slots trailing,
    every free slot's offset = end of data.  blocks: list of dicts with type, format,
    payload (bytes), comment, cdate, mdate, adate."""
    holes_before = list(holes_before or [0] * len(blocks))   # holes_before[i]: unused slots in the table in front of live block i (another
    assert len(blocks) + sum(holes_before) <= n_entries      # writer deleted blocks and left their slots where they were); data stays in order
    gaps = list(gaps or [0] * len(blocks))   # gaps[i]: unused bytes after block i (well-formed, but not compact)
    e = Enc(dc)
    enc_header(e, {"version": version, "nEntries": n_entries, "dates": list(dates)})
    off = HEADER_SIZE + ENTRY_SIZE * n_entries
    for b, g, h in zip(blocks, gaps, holes_before):
        for _ in range(h):
            enc_entry(e, {"type": 0, "format": 0, "offset": off, "size": 0, "cdate": free_dates[0], "mdate": free_dates[1], "adate": free_dates[2], "comment": free_comment})
        enc_entry(e, {"type": b["type"], "format": b["format"], "offset": off, "size": len(b["payload"]),
                      "cdate": b["cdate"], "mdate": b["mdate"], "adate": b.get("adate", 0), "comment": b["comment"]})
        off += len(b["payload"]) + g
    for k in range(n_entries - len(blocks) - sum(holes_before)):
        # the first unused slot carries the end-of-data offset (that is what add_block reuses); later ones may hold
        # anything in foreign files (the library re-points them on the next add)
        o = off if k == 0 or not free_offsets else free_offsets[(k - 1) % len(free_offsets)]
        enc_entry(e, {"type": 0, "format": 0, "offset": o, "size": 0, "cdate": free_dates[0], "mdate": free_dates[1],
                      "adate": free_dates[2], "comment": free_comment})
    assert len(e.buf) == HEADER_SIZE + ENTRY_SIZE * n_entries
    spans = list(e.spans)
    for b, g in zip(blocks, gaps):
        e.raw(b["payload"])
        if g:
            e.raw(b"\xA5" * g)
    return (bytes(e.buf), spans) if with_spans else bytes(e.buf)


def parse_container(data):
    """Independent reader of header + jump table. Raises RefError if not a TDF image."""
    if len(data) < HEADER_SIZE:
        raise RefError("shorter than a header")
    d = Dec(data)
    sig = d._take(16)
    if sig != SIGNATURE:
        raise RefError("bad signature")
    h = {"version": d.u32(), "nEntries": d.i32()}
    h["reserved1"] = bytes(d.skip(8))
    h["dates"] = d.i32(3)
    h["reserved2"] = bytes(d.skip(20))
    n = h["nEntries"]
    if n < 0 or HEADER_SIZE + ENTRY_SIZE * n > len(data):
        raise RefError(f"table of {n} entries does not fit in {len(data)} bytes")
    entries = []
    for i in range(n):
        en = {"type": d.u32(), "format": d.u32()}
        en["offset"], en["size"], en["cdate"], en["mdate"], en["adate"] = d.i32(5)
        en["pad"] = bytes(d.skip(4))
        raw = data[d.pos:d.pos + 256]
        en["comment_raw"] = raw
        try:
            en["comment"] = d.string(256)
        except RefError:
            en["comment"] = None
        entries.append(en)
    h["entries"] = entries
    h["spans"] = d.spans
    h["length"] = len(data)
    return h


def live(parsed):
    return [(i, e) for i, e in enumerate(parsed["entries"]) if e["type"] != 0]


def well_formed_problems(parsed, n_expected=None, version_expected=None):
    """C03's predicate. Returns a list of human-readable problems (empty = sound)."""
    out = []
    n = parsed["nEntries"]
    L = parsed["length"]
    if n_expected is not None and n != n_expected:
        out.append(("slot-count-changed", f"nEntries {n} != {n_expected}"))
    if version_expected is not None and parsed["version"] != version_expected:
        out.append(("version-changed", f"version {parsed['version']} != {version_expected}"))
    table_end = HEADER_SIZE + ENTRY_SIZE * n
    if L < table_end:
        out.append(("file-shorter-than-table", f"length {L} < {table_end}"))
    ranges = []
    for i, e in enumerate(parsed["entries"]):
        if e["type"] == 0:
            if e["size"] != 0:
                out.append(("unused-slot-nonzero-size", f"slot {i}: unused with size {e['size']}"))
            continue
        if e["size"] < 0:
            out.append(("negative-size", f"slot {i}: size {e['size']}"))
            continue
        if e["offset"] < table_end:
            out.append(("block-inside-table", f"slot {i}: offset {e['offset']} < {table_end}"))
        if e["offset"] + e["size"] > L:
            out.append(("block-beyond-eof", f"slot {i}: {e['offset']}+{e['size']} > {L}"))
        ranges.append((e["offset"], e["offset"] + e["size"], i))
    ranges.sort()
    for (a0, a1, i), (b0, b1, j) in zip(ranges, ranges[1:]):
        if b0 < a1 and a1 > a0 and b1 > b0:
            out.append(("live-blocks-overlap", f"slots {i} [{a0},{a1}) and {j} [{b0},{b1}) overlap"))
    return out


def compact_problems(parsed):
    """C09's predicate."""
    out = []
    n = parsed["nEntries"]
    pos = HEADER_SIZE + ENTRY_SIZE * n
    seen_free = False
    for i, e in enumerate(parsed["entries"]):
        if e["type"] == 0:
            seen_free = True
            continue
        if seen_free:
            out.append(("live-after-unused", f"slot {i} is live but an unused slot precedes it"))
        if e["offset"] != pos:
            out.append(("not-back-to-back", f"slot {i}: offset {e['offset']}, expected {pos}"))
        pos = e["offset"] + max(e["size"], 0)
    total = HEADER_SIZE + ENTRY_SIZE * n + sum(max(e["size"], 0) for e in parsed["entries"] if e["type"] != 0)
    if parsed["length"] != total:
        out.append(("length-not-sum", f"file length {parsed['length']} != header+table+sum(sizes) {total}"))
    for i, e in enumerate(parsed["entries"]):
        if e["type"] == 0 and e["offset"] != total:
            out.append(("free-slot-offset", f"unused slot {i}: offset {e['offset']}, end of data is {total}"))
    return out
