"""Property id -> module holding its sub-checks (imported lazily)."""
import importlib

IDS = [f"C{i:02d}" for i in range(1, 21)]
_cache = {}


def get_module(prop):
    if prop not in _cache:
        _cache[prop] = importlib.import_module(f"vf.props.{prop.lower()}")
    return _cache[prop]


def get_subs(prop):
    return get_module(prop).SUBS


def get_sub(prop, name):
    for s in get_subs(prop):
        if s.name == name:
            return s
    raise KeyError(f"{prop}/{name}")
