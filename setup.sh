#!/bin/bash
# MANIFEST.setup_cmd: offline, idempotent. Installs hypothesis into /venv (if absent)
# and atheris (cp312 wheel) into /verif/.deps, both from the local wheelhouse.
cd "$(dirname "$0")" || exit 2
export PIP_NO_INDEX=1
W=/opt/veriftools/wheels
/venv/bin/python -c "import hypothesis" 2>/dev/null || \
  /venv/bin/pip install --no-index --find-links $W hypothesis || exit 2
if ! PYTHONPATH=$PWD/.deps /venv/bin/python -c "import atheris" 2>/dev/null; then
  /venv/bin/pip install --no-index --find-links $W --target "$PWD/.deps" atheris \
    || echo "setup: atheris not installable; coverage-guided tier will be skipped" >&2
fi
mkdir -p evidence replays-out
/venv/bin/python -c "import hypothesis, numpy; print('setup ok: hypothesis', hypothesis.__version__, 'numpy', numpy.__version__)"
