#!/venv/bin/python
"""Regenerates /verif/MANIFEST.json from the property modules that exist (development tool)."""
import json, os, sys
sys.path.insert(0, "/verif")
os.environ.setdefault("VERIF_REPO", "/repo")
from vf import env
env.import_library()
from vf import registry

props = {json.loads(l)["id"]: json.loads(l) for l in open("/verif/properties.jsonl")}
checks, na = [], []
for pid in registry.IDS:
    try:
        mod = registry.get_module(pid)
    except ModuleNotFoundError:
        na.append({"property_id": pid, "reason": "check not built yet in this revision of /verif (work in progress; planned in DESIGN.md)"})
        continue
    P = mod.PROP
    checks.append({
        "property_id": pid,
        "quick_cmd": f"./check {pid} --tier quick",
        "thorough_cmd": f"./check {pid} --tier thorough",
        "evidence_file": f"evidence/{pid}.json",
        "replay_cmd_template": f"./check {pid} --replay {{path}}",
        "engine": "vf",
        "level_claimed": {"category": P["level"], "text": P["level_text"], "design_ref": P.get("design_ref", "")},
        "level_note": P["level_note"],
        "technique": P["technique"],
    })
man = {
    "version": 1,
    "setup_cmd": "./setup.sh",
    "hooks": {
        "guard": "BASICTDF_VERIF",
        "enable": "no source hooks: checks import /repo/src from the working tree in a fresh interpreter (PYTHONDONTWRITEBYTECODE=1); ./check exports BASICTDF_VERIF=1 but the library does not read it",
        "baseline_off_cmd": "cd /repo && env -u BASICTDF_VERIF /venv/bin/python -m pytest -ra -q -p no:cacheprovider --timeout=900 --continue-on-collection-errors",
        "source_commits": [],
        "add_only": True,
    },
    "engines": [{
        "name": "vf", "path": "vf/",
        "serves_properties": [c["property_id"] for c in checks],
        "kind_free_text": "Hypothesis 6.168 (@given over JSON-able block specs, RuleBasedStateMachine histories sharing one interpreter with the replay path), exhaustive enumeration of finite sub-domains, Atheris/libFuzzer driving the same Hypothesis tests in the thorough tier; oracles: independent struct-only reference codec (vf/reftdf.py), explicit cp1252 table, container model",
    }],
    "checks": checks,
    "not_applicable": na,
    "notes": "All checks run under /venv/bin/python against $VERIF_REPO/src (default /repo/src). Exit 0 held / 1 VIOLATION / 2 harness error. VERIF_SEED seeds every Hypothesis test via @seed; VERIF_TIER or --tier selects the tier.",
}
json.dump(man, open("/verif/MANIFEST.json", "w"), indent=1)
pass
print("checks:", len(checks), "not_applicable:", len(na))
