#!/venv/bin/python
"""Writes golden/capture.json: digests of the BTS capture as decoded by reftdf (development tool;
run once, result committed - it pins the reference decoder itself)."""
import hashlib, json, sys
sys.path.insert(0, "/verif")
from vf import env, reftdf as R, core
data = open(env.CAPTURE, "rb").read()
p = R.parse_container(data)
out = {"file_sha256": hashlib.sha256(data).hexdigest(), "length": len(data), "version": p["version"], "nEntries": p["nEntries"],
       "header_dates": p["dates"], "blocks": []}
for i, e in R.live(p):
    t = R.CODE_TYPE[e["type"]]
    spec, used, spans, segs = R.decode(t, e["format"], data, e["offset"])
    info = {"slot": i, "type": t, "format": e["format"], "offset": e["offset"], "size": e["size"],
            "cdate": e["cdate"], "mdate": e["mdate"], "canonical_sha256": hashlib.sha256(core.jdump(spec).encode()).hexdigest(),
            "dontcare_bytes": sum(b - a for a, b, c in spans if c in R.DONTCARE)}
    if t == "data3D":
        info.update(nFrames=spec["nFrames"], nTracks=len(spec["tracks"]), nLinks=len(spec["links"]), labels=[x["label"] for x in spec["tracks"]],
                    max_segments=max(len(s) for s in segs))
    if t == "emg":
        info.update(nSamples=spec["nSamples"], nSignals=len(spec["signals"]), labels=[x["label"] for x in spec["signals"]], channels=[x["channel"] for x in spec["signals"]])
    if t == "force3D":
        info.update(nFrames=spec["nFrames"], nTracks=len(spec["tracks"]), labels=[x["label"] for x in spec["tracks"]])
    if t == "platData":
        info.update(nFrames=spec["nFrames"], channels=[x["channel"] for x in spec["plats"]])
    if t == "platCal":
        info.update(labels=[x["label"] for x in spec["plats"]], channels=[x["channel"] for x in spec["plats"]])
    if t == "data2D":
        info.update(nCams=spec["nCams"], nFrames=spec["nFrames"], camMap=spec["camMap"])
    if t == "calib":
        info.update(nCams=len(spec["cams"]), model=spec["model"], map=spec["map"])
    if t == "optical":
        info.update(names=[x["name"] for x in spec["channels"]])
    out["blocks"].append(info)
json.dump(out, open("/verif/golden/capture.json", "w"), indent=1)
print(json.dumps(out, indent=1)[:3000])
