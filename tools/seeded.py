#!/venv/bin/python
"""Seeded-defect bookkeeping (development tool, not a registered check).

  tools/seeded.py import /tmp/mut/C05            copy _out/<k>/ of an agent worktree to seeded/C05-<k>/
  tools/seeded.py eval [--tier quick] [--all-props] [ids...]
        for every seeded/<id>: apply patch.diff to a scratch worktree of /repo (outside /repo and /verif),
        confirm (a) pinned tests still pass, (b) demo.py fails with and passes without the patch,
        run ./check <property> against the patched copy, store the outcome in seeded/<id>/meta.json.
"""
import argparse, glob, json, os, shutil, subprocess, sys, tempfile, time

V = os.environ.get("VERIF_HOME", "/verif")


def sh(cmd, **kw):
    return subprocess.run(cmd, capture_output=True, text=True, **kw)


def do_import(src):
    prop = os.path.basename(src.rstrip("/"))
    for d in sorted(glob.glob(os.path.join(src, "_out", "[0-9]*"))):
        k = os.path.basename(d)
        dst = os.path.join(V, "seeded", f"{prop}-{k}")
        os.makedirs(dst, exist_ok=True)
        for f in ("patch.diff", "demo.py", "meta.json"):
            if os.path.exists(os.path.join(d, f)):
                shutil.copy(os.path.join(d, f), os.path.join(dst, f))
        # demos refer to their own worktree path: make them location independent
        p = os.path.join(dst, "demo.py")
        if os.path.exists(p):
            s = open(p).read().replace(src.rstrip("/") + "/src", os.environ.get("SEEDED_SRC_PLACEHOLDER", "@SRC@"))
            s = s.replace(src.rstrip("/"), "@ROOT@")
            open(p, "w").write(s)
        print("imported", dst)


def evaluate(sid, tier, all_props):
    d = os.path.join(V, "seeded", sid)
    meta = json.load(open(os.path.join(d, "meta.json")))
    prop = meta["property"]
    root = tempfile.mkdtemp(prefix="seed-", dir="/tmp")
    r = os.path.join(root, "r")
    res = {"evaluated_at_repo_commit": sh(["git", "-C", "/repo", "rev-parse", "--short", "HEAD"]).stdout.strip()}
    try:
        sh(["git", "-C", "/repo", "worktree", "add", "--detach", "-f", r, "HEAD"])
        # demo on the unpatched copy
        demo = open(os.path.join(d, "demo.py")).read().replace("@SRC@", r + "/src").replace("@ROOT@", r)
        dp = os.path.join(root, "demo.py")
        open(dp, "w").write(demo)
        env = dict(os.environ, PYTHONPATH=r + "/src", PYTHONDONTWRITEBYTECODE="1", TZ="UTC")
        p0 = sh(["/venv/bin/python", dp], env=env, cwd=root, timeout=600)
        res["demo_without_patch_exit"] = p0.returncode
        ap = sh(["git", "-C", r, "apply", os.path.join(d, "patch.diff")])
        if ap.returncode != 0:
            ap = sh(["git", "-C", r, "apply", "-3", os.path.join(d, "patch.diff")])
        res["patch_applies"] = ap.returncode == 0
        if not res["patch_applies"]:
            res["patch_error"] = ap.stderr[-400:]
            return res
        t = sh(["/venv/bin/python", "-m", "pytest", "-q", "-p", "no:cacheprovider", "--ignore=tests/test_Tdf.py"], cwd=r, env=env, timeout=900)
        res["pinned_tests"] = (t.stdout.strip().splitlines() or ["?"])[-1]
        p1 = sh(["/venv/bin/python", dp], env=env, cwd=root, timeout=600)
        res["demo_with_patch_exit"] = p1.returncode
        res["demo_with_patch_output"] = (p1.stdout + p1.stderr)[-300:]
        res["confirmed"] = res["demo_without_patch_exit"] == 0 and p1.returncode == 1 and "39 passed" in res["pinned_tests"]
        props = [prop] + ([f"C{i:02d}" for i in range(1, 21) if f"C{i:02d}" != prop] if all_props else [])
        det = {}
        for pr in props:
            if not os.path.exists(os.path.join(V, "vf", "props", pr.lower() + ".py")):
                continue
            t0 = time.time()
            c = sh([os.path.join(V, "check"), pr, "--tier", tier], env=dict(os.environ, VERIF_REPO=r, VERIF_SEED=os.environ.get("VERIF_SEED", "1")), cwd=V, timeout=3600)
            keys = [l.strip() for l in c.stdout.splitlines() if l.startswith("  " + pr + "/")]
            det[pr] = {"exit": c.returncode, "wall_s": round(time.time() - t0, 1), "keys": [k[:200] for k in keys[:4]]}
            if c.returncode == 2:
                det[pr]["harness"] = (c.stdout + c.stderr)[-600:]
        res["detection"] = det
        res["detected_by_own_check"] = det.get(prop, {}).get("exit") == 1
        res["tier"] = tier
        return res
    finally:
        sh(["git", "-C", "/repo", "worktree", "remove", "--force", r])
        shutil.rmtree(root, ignore_errors=True)
        sh(["git", "-C", "/repo", "worktree", "prune"])


def main():
    ap = argparse.ArgumentParser()
    ap.add_argument("cmd", choices=["import", "eval", "table"])
    ap.add_argument("--tier", default="quick")
    ap.add_argument("--all-props", action="store_true")
    ap.add_argument("args", nargs="*")
    a = ap.parse_args()
    if a.cmd == "import":
        for s in a.args:
            do_import(s)
        return
    ids = a.args or sorted(os.listdir(os.path.join(V, "seeded")))
    if a.cmd == "table":
        for sid in ids:
            m = json.load(open(os.path.join(V, "seeded", sid, "meta.json")))
            e = m.get("evaluation", {})
            print(f"{sid:8s} confirmed={e.get('confirmed')} own={e.get('detected_by_own_check')} "
                  f"others={[p for p, v in e.get('detection', {}).items() if v['exit'] == 1 and p != m['property']]} :: {m.get('summary', '')[:90]}")
        return
    for sid in ids:
        mp = os.path.join(V, "seeded", sid, "meta.json")
        res = evaluate(sid, a.tier, a.all_props)
        m = json.load(open(mp))
        m["evaluation"] = res
        m["what_was_run"] = ("patch applied to a scratch git worktree of /repo HEAD; pinned suite (pytest, tests/test_Tdf.py ignored as in the baseline); "
                             "demo.py with and without the patch; ./check <property> --tier " + a.tier + " with VERIF_REPO=<scratch copy>")
        json.dump(m, open(mp, "w"), indent=1)
        own = res.get("detection", {}).get(m["property"], {})
        print(f"{sid}: applies={res.get('patch_applies')} tests={res.get('pinned_tests')} demo(without,with)=({res.get('demo_without_patch_exit')},{res.get('demo_with_patch_exit')}) "
              f"confirmed={res.get('confirmed')} own-check exit={own.get('exit')} {own.get('keys', [])[:2]}")


main()
