#!/venv/bin/python
"""Sensitivity helper (development tool, not a registered check).

  tools/sens.py --edit FILE 'OLD' 'NEW' [--edit ...] | --patch P.diff   [--tests] [--tier quick] [--only SUB] IDS...

Copies /repo/src (+tests) to a scratch directory outside /repo and /verif, applies the
change there, optionally runs the pinned test suite on the copy, runs ./check for each id
with VERIF_REPO pointing at the copy, prints the exit codes and removes the copy.
"""
import argparse, os, shutil, subprocess, sys, tempfile

ap = argparse.ArgumentParser()
ap.add_argument("--edit", nargs=3, action="append", default=[], metavar=("FILE", "OLD", "NEW"))
ap.add_argument("--patch")
ap.add_argument("--tests", action="store_true")
ap.add_argument("--tier", default="quick")
ap.add_argument("--only", action="append")
ap.add_argument("--seed", default="1")
ap.add_argument("--keep", action="store_true")
ap.add_argument("ids", nargs="*")
a = ap.parse_args()
root = tempfile.mkdtemp(prefix="sens-", dir="/tmp")
try:
    subprocess.check_call(["git", "-C", "/repo", "worktree", "add", "--detach", "-f", root + "/r", "HEAD"], stdout=subprocess.DEVNULL, stderr=subprocess.DEVNULL)
    r = root + "/r"
    # bring over uncommitted working-tree state of /repo too
    diff = subprocess.run(["git", "-C", "/repo", "diff", "HEAD"], capture_output=True).stdout
    if diff.strip():
        subprocess.run(["git", "-C", r, "apply"], input=diff, check=True)
    if a.patch:
        subprocess.check_call(["git", "-C", r, "apply", os.path.abspath(a.patch)])
    for f, old, new in a.edit:
        p = os.path.join(r, "src/basictdf", f)
        s = open(p).read()
        if s.count(old) != 1:
            sys.exit(f"edit: {old!r} occurs {s.count(old)} times in {f}")
        open(p, "w").write(s.replace(old, new))
    env = dict(os.environ, VERIF_REPO=r, VERIF_SEED=a.seed)
    if a.tests:
        t = subprocess.run(["/venv/bin/python", "-m", "pytest", "-q", "-p", "no:cacheprovider", "--continue-on-collection-errors", "-x", "--ignore=tests/test_Tdf.py"],
                           cwd=r, env=dict(os.environ, PYTHONPATH=r + "/src", PYTHONDONTWRITEBYTECODE="1"), capture_output=True, text=True)
        print("pinned tests on the changed copy:", t.stdout.strip().splitlines()[-1] if t.stdout.strip() else t.stderr[-300:])
    for i in a.ids:
        cmd = ["/verif/check", i, "--tier", a.tier]
        for o in a.only or []:
            cmd += ["--only", o]
        p = subprocess.run(cmd, env=env, capture_output=True, text=True)
        lines = [l for l in p.stdout.splitlines() if l.startswith(("VIOLATION", "KNOWN", "HARNESS", "  C"))]
        print(f"== {i}: exit={p.returncode}")
        for l in lines[:12]:
            print("   ", l[:300])
        if p.returncode == 2:
            print(p.stdout[-1500:], p.stderr[-1500:])
finally:
    if not a.keep:
        subprocess.run(["git", "-C", "/repo", "worktree", "remove", "--force", root + "/r"], stdout=subprocess.DEVNULL, stderr=subprocess.DEVNULL)
        shutil.rmtree(root, ignore_errors=True)
        subprocess.run(["git", "-C", "/repo", "worktree", "prune"])
