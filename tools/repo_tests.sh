#!/bin/bash
# runs the pinned baseline suite of /repo (guard off) and prints the summary line
cd /repo && env -u BASICTDF_VERIF PYTHONDONTWRITEBYTECODE=1 /venv/bin/python -m pytest -q -p no:cacheprovider --timeout=900 --continue-on-collection-errors 2>&1 | tail -4
