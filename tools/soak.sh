#!/bin/bash
# runs every quick check at several seeds on /repo; prints only runs that are not exit 0 (development tool)
cd "$(dirname "$0")/.."
for seed in ${@:-2 3 4 5 6 7}; do
  for i in $(seq -w 1 20); do
    out=$(VERIF_SEED=$seed ./check C$i --tier quick 2>&1); rc=$?
    if [ $rc -ne 0 ]; then echo "seed=$seed C$i rc=$rc"; echo "$out" | grep -E "VIOLATION|HARNESS|^  C" | head -6; fi
  done
  echo "seed $seed done"
done
