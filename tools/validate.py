#!/opt/veriftools/pyvenv/bin/python
"""Validates MANIFEST.json and evidence/*.json against the schemas in /root/.vp (development tool)."""
import json, glob, sys, jsonschema
ok = True
def val(path, schema):
    global ok
    try:
        jsonschema.validate(json.load(open(path)), json.load(open(schema)))
    except Exception as e:
        ok = False
        print("INVALID", path, str(e)[:300])
val("/verif/MANIFEST.json", "/root/.vp/MANIFEST.schema.json")
for p in sorted(glob.glob("/verif/evidence/*.json")):
    val(p, "/root/.vp/EVIDENCE.schema.json")
print("valid" if ok else "INVALID")
sys.exit(0 if ok else 1)
