#!/bin/bash
# runs every check's quick (or $1) tier on /repo, prints one line each and the exit code
tier=${1:-quick}
cd "$(dirname "$0")/.."
for i in $(seq -w 1 20); do
  s=$(date +%s)
  out=$(./check C$i --tier $tier 2>&1); rc=$?
  echo "C$i rc=$rc $(( $(date +%s) - s ))s $(echo "$out" | grep -m1 '^\[C')"
  [ $rc -ne 0 ] && echo "$out" | grep -E "VIOLATION|HARNESS|^  C" | head -5
done
