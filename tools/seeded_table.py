#!/venv/bin/python
"""prints the markdown rows of DESIGN.md section 9 from seeded/*/meta.json (development tool)"""
import glob, json, os, re
rows = []
for mp in sorted(glob.glob("/verif/seeded/*/meta.json")):
    sid = os.path.basename(os.path.dirname(mp))
    m = json.load(open(mp))
    e = m.get("evaluation", {})
    own = e.get("detection", {}).get(m["property"], {})
    key = (own.get("keys") or ["-"])[0].split(": ")[0]
    key = key.replace(m["property"] + "/", "", 1)
    summ = re.sub(r"\s+", " ", m.get("summary", ""))[:150].replace("|", "/")
    need = re.sub(r"\s+", " ", m.get("needs", ""))[:110].replace("|", "/")
    rows.append(f"| {sid} | {summ} (needs: {need}) | `{key[:90]}` | {'yes' if e.get('confirmed') else 'NO'} / {'yes' if e.get('detected_by_own_check') else 'NO'} |")
print("\n".join(rows))
